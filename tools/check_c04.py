#!/usr/bin/env python3
"""C04 — schemas that evolve by appending fields stay interoperable in both directions.
Pairs (A, B) with B = A + appended fields (of primitive, array, multimap, optional, dictionary and
new struct types) are generated, both compiled with stefc from the working tree, and:
  forward:   A writer (with descriptor) -> B reader : all A fields intact, B-only fields at defaults
  downgrade: B writer asked to write schema A -> A reader : all A fields intact, unknown oneof -> none
  refuse:    B writer's own stream (descriptor of B) -> A reader : refused at creation
The model reader (coq/Stream/Reader.v with the wire-schema override of Schema.v field_count) reads
the same streams and must agree with the generated readers."""
import collections, copy, json, os, sys, time
sys.path.insert(0, os.path.dirname(os.path.abspath(__file__)))
import vlib, streamlib, genpkg
from vlib import SplitMix
from streamlib import parse_model_line, strip_mask

PROP = 'C04'
PRIMS = ['bool', 'int64', 'uint64', 'float64', 'string', 'bytes']


# ---------------------------------------------------------------- dump trees
def parse_dump(s):
    pos = 0

    def val():
        nonlocal pos
        c = s[pos]
        if c == '{':
            pos += 1
            items = []
            if s[pos] == '}':
                pos += 1
                return ('struct', items)
            while True:
                items.append(val())
                if s[pos] == ',':
                    pos += 1
                    continue
                assert s[pos] == '}', (s, pos)
                pos += 1
                return ('struct', items)
        if c == '<':
            j = pos + 1
            while s[j].isdigit():
                j += 1
            tag = int(s[pos + 1:j])
            pos = j
            if s[pos] == ':':
                pos += 1
                v = val()
            else:
                v = None
            assert s[pos] == '>'
            pos += 1
            return ('oneof', tag, v)
        if c == '[':
            pos += 1
            items = []
            if s[pos] == ']':
                pos += 1
                return ('array', items)
            while True:
                items.append(val())
                if s[pos] == ',':
                    pos += 1
                    continue
                assert s[pos] == ']'
                pos += 1
                return ('array', items)
        if c == '(':
            pos += 1
            items = []
            if s[pos] == ')':
                pos += 1
                return ('map', items)
            while True:
                k = val()
                assert s[pos] == '='
                pos += 1
                v = val()
                items.append((k, v))
                if s[pos] == ';':
                    pos += 1
                    continue
                assert s[pos] == ')'
                pos += 1
                return ('map', items)
        if c == '~':
            pos += 1
            return ('absent',)
        if s.startswith('nil', pos):
            pos += 3
            return ('nil',)
        j = pos + 1
        while j < len(s) and s[j] not in ',}>];)=':
            j += 1
        tok = s[pos:j]
        pos = j
        return ('prim', tok)
    v = val()
    assert pos == len(s), (s[pos:pos + 20])
    return v


def unparse(t):
    k = t[0]
    if k == 'prim':
        return t[1]
    if k == 'absent':
        return '~'
    if k == 'nil':
        return 'nil'
    if k == 'struct':
        return '{' + ','.join(unparse(x) for x in t[1]) + '}'
    if k == 'oneof':
        return '<0>' if t[1] == 0 else f'<{t[1]}:{unparse(t[2])}>'
    if k == 'array':
        return '[' + ','.join(unparse(x) for x in t[1]) + ']'
    return '(' + ';'.join(unparse(a) + '=' + unparse(b) for a, b in t[1]) + ')'


ZERO = {'PBool': 'b0', 'PInt64': 'i0', 'PUint64': 'u0', 'PFloat64': 'f0000000000000000', 'PString': 's', 'PBytes': 's'}


def zero(sch, ty, depth=0):
    k = ty['k']
    if k == 'prim':
        return ('prim', ZERO[ty['p']])
    if k == 'array':
        return ('array', [])
    if k == 'multimap':
        return ('map', [])
    st = sch['structs'][ty['id']]
    if st['oneof']:
        return ('oneof', 0, None)
    return ('struct', [('absent',) if f['optional'] else zero(sch, f['type'], depth + 1) for f in st['fields']])


def by_name(sch, name, kind):
    for i, x in enumerate(sch[kind]):
        if x['name'] == name:
            return i
    return None


def convert(t, src, sty, dst, dty):
    """re-express a dump tree of type sty (schema src) in type dty (schema dst): fields/alternatives
    are matched by position (append-only evolution); missing ones take defaults, extra ones are dropped"""
    k = sty['k']
    if t[0] in ('absent', 'nil'):
        return t
    if k == 'prim':
        return t
    if k == 'array':
        return ('array', [convert(x, src, sty['elem'], dst, dty['elem']) for x in t[1]])
    if k == 'multimap':
        ms, md = src['multimaps'][sty['id']], dst['multimaps'][dty['id']]
        return ('map', [(convert(a, src, ms['key'], dst, md['key']), convert(b, src, ms['value'], dst, md['value'])) for a, b in t[1]])
    ss, sd = src['structs'][sty['id']], dst['structs'][dty['id']]
    if ss['oneof']:
        tag = t[1]
        if tag == 0 or tag > len(sd['fields']):
            return ('oneof', 0, None)
        return ('oneof', tag, convert(t[2], src, ss['fields'][tag - 1]['type'], dst, sd['fields'][tag - 1]['type']))
    out = []
    for i, fd in enumerate(sd['fields']):
        if i < len(ss['fields']) and i < len(t[1]):
            out.append(convert(t[1][i], src, ss['fields'][i]['type'], dst, fd['type']))
        else:
            out.append(('absent',) if fd['optional'] else zero(dst, fd['type']))
    return ('struct', out)


def conv_dump(d, src, dst, root):
    ts = {'k': 'struct', 'id': by_name(src, root, 'structs')}
    td = {'k': 'struct', 'id': by_name(dst, root, 'structs')}
    return unparse(convert(parse_dump(d), src, ts, dst, td))


# ---------------------------------------------------------------- pairs
def random_pair(rng, idx):
    """(A text, B text): B appends fields to some structs/oneofs of A and may add new types"""
    nstruct = 2 + rng.below(3)
    structs = [dict(name=f'S{i}', fields=[], a=0, oneof=False, dict=(i > 0 and rng.chance(1, 4))) for i in range(nstruct)]
    oneofs = [dict(name=f'O{i}', fields=[], a=0, oneof=True, dict=False) for i in range(1 + rng.below(2))]
    maps = [dict(name=f'M{i}') for i in range(1 + rng.below(2))]
    new_structs = [dict(name=f'N{i}', fields=[], a=0, oneof=False, dict=False, new=True) for i in range(rng.below(3))]

    def prim(allow_dict=True):
        p = rng.choice(PRIMS)
        if allow_dict and p in ('string', 'bytes') and rng.chance(1, 3):
            return f'{p} dict(D{p[0].upper()}{rng.below(2)})'      # one dictionary per primitive type (finding C10-dict-shared-by-string-and-bytes)
        return p

    def ftype(owner_idx, is_b_only, leaf=False):
        k = rng.below(9)
        if k < 4 or leaf:
            return prim(), False
        if k == 4:
            e = rng.choice(PRIMS + [s['name'] for s in structs[owner_idx + 1:]] + [o['name'] for o in oneofs])
            return f'[]{e}', False
        if k == 5:
            return rng.choice(maps)['name'], False
        if k == 6:
            return rng.choice(oneofs)['name'], False
        if k == 7 and is_b_only and new_structs:
            return rng.choice(new_structs)['name'], False
        later = structs[owner_idx + 1:]
        if later:
            return rng.choice(later)['name'], False
        return prim(), False

    for i, s in enumerate(structs):
        na = 1 + rng.below(4)
        nb = rng.below(4) if rng.chance(2, 3) else 0
        for j in range(na + nb):
            t, _ = ftype(i, j >= na, leaf=s['dict'])
            # an optional field of dictionary-struct type does not compile (finding C10-optional-dict-struct-field)
            opt = rng.chance(1, 4) and not t.startswith('[') and not any(x['name'] == t and x.get('dict') for x in structs)
            s['fields'].append((f'F{j}', t, opt))
        s['a'] = na
    for o in oneofs:
        na = 1 + rng.below(3)
        nb = rng.below(3)
        for j in range(na + nb):
            t, _ = ftype(len(structs), j >= na)
            o['fields'].append((f'A{j}', t, False))
        o['a'] = na
    for n in new_structs:
        for j in range(1 + rng.below(3)):
            n['fields'].append((f'F{j}', prim(), rng.chance(1, 4)))
        n['a'] = 0
    for m in maps:
        m['key'] = prim()
        vt, _ = ftype(len(structs), False)
        m['value'] = vt

    def render(b):
        L = [f'package verif.pair{idx}{"b" if b else "a"}', '']
        for s in structs + oneofs + (new_structs if b else []):
            fields = s['fields'] if b else s['fields'][:s['a']]
            mods = []
            if s.get('dict'):
                mods.append(f'dict({s["name"]})')
            if s['name'] == 'S0':
                mods.append('root')
            L.append(f'{"oneof" if s["oneof"] else "struct"} {s["name"]} {" ".join(mods)} {{'.replace('  ', ' '))
            for (n, t, opt) in fields:
                L.append(f'  {n} {t}{" optional" if opt and not s["oneof"] else ""}')
            L.append('}')
        for m in maps:
            L.append(f'multimap {m["name"]} {{\n  key {m["key"]}\n  value {m["value"]}\n}}')
        return '\n'.join(L) + '\n'
    return render(False), render(True)


FIXED_PAIRS = [
    # dictionary struct with several appended fields (downgrade must strip their modified bits)
    ('package p.d\nstruct R root {\n M D\n X uint64\n}\nstruct D dict(D) {\n A string\n B uint64\n}\n',
     'package p.d\nstruct R root {\n M D\n X uint64\n Y string\n}\nstruct D dict(D) {\n A string\n B uint64\n C uint64\n E string\n F float64\n}\n'),
    # HistogramValue-like: optional fields appended after the kept prefix (downgrade must mask presence bits)
    ('package p.h\nstruct R root {\n V H\n}\nstruct H {\n Count int64\n Sum float64 optional\n}\n',
     'package p.h\nstruct R root {\n V H\n}\nstruct H {\n Count int64\n Sum float64 optional\n Min float64 optional\n Max float64 optional\n Buckets []uint64\n}\n'),
    # appended fields that add new columns / shift the depth-first list of struct counts
    ('package p.s\nstruct R root {\n A X\n B Y\n}\nstruct X {\n F uint64\n}\nstruct Y {\n G string\n}\n',
     'package p.s\nstruct R root {\n A X\n B Y\n C Z\n}\nstruct X {\n F uint64\n Z2 Z\n}\nstruct Y {\n G string\n H []int64\n}\nstruct Z {\n K bytes dict(D)\n}\n'),
    # oneof with appended alternatives
    ('package p.o\nstruct R root {\n V O\n}\noneof O {\n I int64\n S string\n}\n',
     'package p.o\nstruct R root {\n V O\n}\noneof O {\n I int64\n S string\n F float64\n M MM\n}\nmultimap MM {\n key string\n value int64\n}\n'),
    # an appended field that reaches, earlier in depth-first order, a struct A reaches later: the lists of
    # field counts have the same length but a different order ([2,1,3,1] vs [2,2,1,3])
    ('package p.e\nstruct R root {\n X S1\n Y S2\n}\nstruct S1 {\n A uint64\n}\nstruct S2 {\n B uint64\n C string\n W S3\n}\nstruct S3 {\n D uint64\n}\n',
     'package p.e\nstruct R root {\n X S1\n Y S2\n}\nstruct S1 {\n A uint64\n V S3\n}\nstruct S2 {\n B uint64\n C string\n W S3\n}\nstruct S3 {\n D uint64\n}\n'),
    # the same through an array and a oneof alternative
    ('package p.f\nstruct R root {\n X S1\n Y O\n}\nstruct S1 {\n A uint64\n}\noneof O {\n I int64\n T S3\n U string\n}\nstruct S3 {\n D uint64\n E string\n}\n',
     'package p.f\nstruct R root {\n X S1\n Y O\n}\nstruct S1 {\n A uint64\n V []S3\n}\noneof O {\n I int64\n T S3\n U string\n}\nstruct S3 {\n D uint64\n E string\n}\n'),
]


# (reader schema, writer schema): the writer's descriptor announces MORE fields for one struct/oneof than
# the reader knows but fewer in total (it passes the length/total test of Compatible): must be refused
REFUSE_PAIRS = [
    ('package p.r\nstruct R root {\n V O\n S T\n}\noneof O {\n I int64\n S string\n}\nstruct T {\n A uint64\n B uint64\n C uint64\n}\n',
     'package p.r\nstruct R root {\n V O\n S T\n}\noneof O {\n I int64\n S string\n F float64\n}\nstruct T {\n A uint64\n}\n'),
    ('package p.q\nstruct R root {\n S T\n U W\n}\nstruct T {\n A uint64\n}\nstruct W {\n A uint64\n B uint64\n C uint64\n}\n',
     'package p.q\nstruct R root {\n S T\n U W\n}\nstruct T {\n A uint64\n B string\n}\nstruct W {\n A uint64\n}\n'),
]


def main():
    seed, tier = vlib.seed_and_tier(sys.argv[1] if len(sys.argv) > 1 else 'quick')
    t0 = time.time()
    verdict = vlib.Verdict(PROP)
    info = vlib.proof_stage(PROP, verdict)
    ok_oc, log_oc = vlib.ocaml_build(vlib.ALL_DRIVERS)
    rng = SplitMix(seed)
    counters, stats, samples = collections.Counter(), collections.Counter(), []
    known = {k['id']: k for k in vlib.load_known() if k['property'] == PROP and k.get('status') == 'known'}
    pairs = [(f'fixed{i}', a, b) for i, (a, b) in enumerate(FIXED_PAIRS)]
    for i in range(3 if tier == 'quick' else 60):
        a, b = random_pair(rng, i)
        pairs.append((f'pair{i}', a, b))
    nev = 0
    if not ok_oc:
        verdict.violation(dict(broken='extraction/ocaml build failed', log=log_oc[-3000:]), 'model does not extract', no_input=True)
        pairs = []
    for name, ta, tb in pairs:
        ra, rb = genpkg.build(ta), genpkg.build(tb)
        if not (ra['ok'] and rb['ok']):
            bad = ra if not ra['ok'] else rb
            if bad['stage'] in ('stefc-run', 'own-parser') and name.startswith('pair'):
                counters['pair_rejected'] += 1
                continue
            verdict.violation(dict(pair=name, schema_a=ta, schema_b=tb, stage=bad['stage'], log=bad['log']),
                              f'{name}: schema of an evolution pair does not get through {bad["stage"]}')
            continue
        stats['pairs'] += 1
        sa, sb = ra['sch'], rb['sch']
        ha = streamlib.Harness(ra['key'], sa, ra['bin'], ra['sjson'])
        hb = streamlib.Harness(rb['key'], sb, rb['bin'], rb['sjson'])
        root = sa['roots'][0]
        # wire schema of A as the model derives it (also checked against the descriptor A writes)
        rcm, mo = vlib.run_lines(ha.model, ha.prelude + [f'counts {ha.name} {ha.rootid(root)}'])
        counts_a = [int(x) for x in mo[-1].split(',') if x]
        nh = 4 if tier == 'quick' else 10

        def report(kind, summary, replay):
            for kid, k in known.items():
                mt = k.get('matcher', {})
                if mt.get('kind') == kind and mt.get('pair') in (name, '*') and (not mt.get('needs') or mt['needs'] in json.dumps(replay)):
                    verdict.known_finding(kid, k['what_fails'])
                    return
            verdict.violation(dict(replay, pair=name, schema_a=ta, schema_b=tb, kind=kind), f'{name}: {summary}')
            counters[kind] += 1

        # ---- forward: A writes with descriptor, B reads
        casesA = []
        for j in range(nh):
            opts = streamlib.gen_opts(rng); opts['descriptor'] = True
            ops = streamlib.gen_history(sa, root, rng, 2 + rng.below(10))
            casesA.append(dict(id=f'{name}:fwd{j}', root=root, opts=opts, ops=ops))
        outsA, _, _ = ha.run_go(casesA)
        rdB = [dict(id=c['id'], root=root, opts={}, mode='readonly', stream=o['stream']) for c, o in zip(casesA, outsA)]
        outsB, _, _ = hb.run_go(rdB)
        mB = hb.run_model([(root, o['stream'], ob.get('frames'), c['opts']['compression']) for c, o, ob in zip(casesA, outsA, outsB)])
        for c, oa, ob, ml in zip(casesA, outsA, outsB, mB):
            nev += 1
            m = parse_model_line(ml)
            if oa.get('panic') or oa.get('werr'):
                report('writer', f'A writer failed: {(oa.get("panic") or oa.get("werr"))[:100]}', dict(case=c)); continue
            if [strip_mask(r) for r in (oa['read'].get('recs') or [])] != oa['written']:
                counters['skipped_a_roundtrip'] += 1      # C01 territory
                continue
            exp = [conv_dump(w, sa, sb, root) for w in oa['written']]
            got = [strip_mask(r) for r in (ob['read'].get('recs') or [])]
            rep = dict(case=c, direction='forward', expected=exp[:3], got=got[:3], read_b=dict(err=ob['read'].get('err'), openerr=ob['read'].get('openerr'), panic=ob['read'].get('panic')), model=m.get('raw'))
            if ob['read'].get('panic') or ob['read'].get('openerr') or got != exp or ob['read'].get('err') != 'eof':
                report('forward', 'B reader does not return the A records padded with defaults', rep); continue
            if [strip_mask(r) for r in m.get('recs', [])] != exp or m.get('ws') != ','.join(map(str, counts_a)):
                verdict.violation(dict(rep, pair=name, schema_a=ta, schema_b=tb, broken='correspondence C04 forward: model reader with wire-schema override', model_ws=m.get('ws'), counts_a=counts_a),
                                  f'{name}: model and generated B reader disagree (or descriptor differs from the model wire schema)', no_input=True)
                counters['correspondence'] += 1
                continue
            counters['forward_ok'] += 1
        # ---- downgrade: B writes in schema A, A reads
        casesB = []
        for j in range(nh):
            opts = streamlib.gen_opts(rng); opts['schema'] = counts_a
            ops = streamlib.gen_history(sb, root, rng, 2 + rng.below(10))
            if j % 2 == 1:
                # every field (also the B-only ones) changes on every record
                g = streamlib.Gen(sb, rng, max_depth=3)
                tb_ = {'k': 'struct', 'id': by_name(sb, root, 'structs')}
                fz = rng.chance(1, 2)
                ops = []
                for _ in range(3 + rng.below(5)):
                    ops += [{'op': 'set', 'v': g.value(tb_), 'freeze': fz}, {'op': 'w'}]
                ops.append({'op': 'f'})
            casesB.append(dict(id=f'{name}:down{j}', root=root, opts=opts, ops=ops))
        # records that differ from their predecessor ONLY in fields the target schema drops, followed by a
        # new value and by repeats of earlier values (dictionary entries and references must stay aligned)
        na_of = {st['name']: len(st['fields']) for st in sa['structs']}
        gB = streamlib.Gen(sb, rng, max_depth=3)

        def b_only(t, v, depth=0):
            k = t['k']
            if v is None or k == 'prim' or depth > 5:
                return v
            if k == 'array':
                return [b_only(t['elem'], x, depth + 1) for x in v]
            if k == 'multimap':
                mm = sb['multimaps'][t['id']]
                return [[kv[0], b_only(mm['value'], kv[1], depth + 1)] for kv in v]
            st = sb['structs'][t['id']]
            if st['oneof']:
                return v if v[0] == 0 else [v[0], b_only(st['fields'][v[0] - 1]['type'], v[1], depth + 1)]
            keep = na_of.get(st['name'], 0)
            out = []
            for i, f in enumerate(st['fields']):
                if i >= keep:
                    out.append(None if (f['optional'] and rng.chance(1, 3)) else gB.value(f['type'], 3))
                else:
                    out.append(b_only(f['type'], v[i], depth + 1))
            return out
        tbr = {'k': 'struct', 'id': by_name(sb, root, 'structs')}
        for j in range(2):
            fz = j == 0
            v0 = gB.value(tbr); v1 = b_only(tbr, v0); v2 = gB.value(tbr); v3 = b_only(tbr, v2)
            seq = [v0, v1, v2, v0, v3, v1, v2]
            ops = sum(([{'op': 'set', 'v': v, 'freeze': fz}, {'op': 'w'}] for v in seq), []) + [{'op': 'f'}]
            opts = dict(compression=0, maxframe=0, maxdict=0, flags=0, descriptor=rng.chance(1, 2), userdata={}, schema=counts_a)
            casesB.append(dict(id=f'{name}:down-bonly{j}', root=root, opts=opts, ops=ops))
        outsB2, _, _ = hb.run_go(casesB)
        rdA = [dict(id=c['id'], root=root, opts={}, mode='readonly', stream=o['stream']) for c, o in zip(casesB, outsB2)]
        outsA2, _, _ = ha.run_go(rdA)
        mA = ha.run_model([(root, o['stream'], oa.get('frames'), c['opts']['compression']) for c, o, oa in zip(casesB, outsB2, outsA2)])
        for c, ob, oa, ml in zip(casesB, outsB2, outsA2, mA):
            nev += 1
            m = parse_model_line(ml)
            if ob.get('panic') or ob.get('werr'):
                report('writer', f'B writer (downgrade) failed: {(ob.get("panic") or ob.get("werr"))[:100]}', dict(case=c)); continue
            exp = [conv_dump(w, sb, sa, root) for w in ob['written']]
            got = [strip_mask(r) for r in (oa['read'].get('recs') or [])]
            rep = dict(case=c, direction='downgrade', expected=exp[:3], got=got[:3], read_a=dict(err=oa['read'].get('err'), openerr=oa['read'].get('openerr'), panic=oa['read'].get('panic')), model=m.get('raw'))
            if oa['read'].get('panic') or oa['read'].get('openerr') or got != exp or oa['read'].get('err') != 'eof':
                report('downgrade', 'A reader does not return the A projection of what the downgraded B writer wrote', rep); continue
            if [strip_mask(r) for r in m.get('recs', [])] != exp:
                verdict.violation(dict(rep, pair=name, schema_a=ta, schema_b=tb, broken='correspondence C04 downgrade: model A reader'),
                                  f'{name}: model and generated A reader disagree on a downgraded stream', no_input=True)
                counters['correspondence'] += 1
                continue
            counters['downgrade_ok'] += 1
        # ---- refuse: B's own descriptor to an A reader (only when B really has more fields somewhere reachable)
        opts = streamlib.gen_opts(rng); opts['descriptor'] = True
        cR = dict(id=f'{name}:refuse', root=root, opts=opts, ops=streamlib.gen_history(sb, root, rng, 3))
        oR = hb.run_go([cR])[0][0]
        rcm, mo = vlib.run_lines(hb.model, hb.prelude + [f'counts {hb.name} {hb.rootid(root)}'])
        counts_b = [int(x) for x in mo[-1].split(',') if x]
        oA = ha.run_go([dict(id=cR['id'], root=root, opts={}, mode='readonly', stream=oR['stream'])])[0][0]
        nev += 1
        if counts_b != counts_a:
            if not oA['read'].get('openerr') or oA['read'].get('recs'):
                report('refuse', 'A reader accepted a stream whose descriptor has more fields than it knows',
                       dict(case=cR, counts_a=counts_a, counts_b=counts_b, read_a=oA['read']))
            else:
                counters['refuse_ok'] += 1
            mR = parse_model_line(ha.run_model([(root, oR['stream'], oA.get('frames') or oR.get('frames'), cR['opts']['compression'])])[0])
            if mR.get('open') == 'ok':
                verdict.violation(dict(pair=name, schema_a=ta, schema_b=tb, counts_a=counts_a, counts_b=counts_b, model=mR.get('raw'),
                                       broken='correspondence C04 refuse: model accepts'), f'{name}: model A reader accepts B descriptor', no_input=True)
        if len(samples) < 3:
            samples.append(dict(pair=name, schema_a=ta[:600], schema_b=tb[:900], counts_a=counts_a, counts_b=counts_b))
    for i, (tr, tw) in enumerate(REFUSE_PAIRS if ok_oc else []):
        rr, rw = genpkg.build(tr), genpkg.build(tw)
        if not (rr['ok'] and rw['ok']):
            verdict.violation(dict(pair=f'refuse{i}', reader=tr, writer=tw, log=(rr['log'] + rw['log'])[-2000:]), f'refuse{i}: schemas do not build')
            continue
        hr = streamlib.Harness(rr['key'], rr['sch'], rr['bin'], rr['sjson'])
        hw = streamlib.Harness(rw['key'], rw['sch'], rw['bin'], rw['sjson'])
        root = rr['sch']['roots'][0]
        opts = streamlib.gen_opts(rng); opts['descriptor'] = True; opts['compression'] = 0
        cw = dict(id=f'refuse{i}', root=root, opts=opts, ops=streamlib.gen_history(rw['sch'], root, rng, 3))
        ow = hw.run_go([cw])[0][0]
        orr = hr.run_go([dict(id=cw['id'], root=root, opts={}, mode='readonly', stream=ow['stream'])])[0][0]
        nev += 1
        mR = parse_model_line(hr.run_model([(root, ow['stream'], None, 0)])[0])
        if not orr['read'].get('openerr') or orr['read'].get('recs'):
            verdict.violation(dict(pair=f'refuse{i}', reader=tr, writer=tw, case=cw, read=orr['read'], model=mR.get('raw')),
                              f'refuse{i}: reader accepted a descriptor with more fields than it knows in one definition')
            counters['refuse'] += 1
        elif mR.get('open') == 'ok':
            verdict.violation(dict(pair=f'refuse{i}', reader=tr, writer=tw, model=mR.get('raw'), broken='correspondence C04 refuse (diverged): model accepts'),
                              f'refuse{i}: model reader accepts a diverged descriptor', no_input=True)
        else:
            counters['refuse_diverged_ok'] += 1
    genpkg.cleanup()
    if info['broken'] and not verdict.violations:
        verdict.violation(dict(broken=info['broken']), 'proof obligation no longer checks: ' + '; '.join(info['broken'])[:300], no_input=True)
    coverage = dict(info)
    coverage.pop('broken', None)
    coverage.update(dict(broken_obligations=info['broken'],
                         trusted_base=vlib.TRUSTED_COMMON + ['stefc and go build are run, not modelled; generated readers/writers reached through the reflective harness'],
                         evaluations=nev, distinct_nontrivial=counters['forward_ok'] + counters['downgrade_ok'] + counters['refuse_ok'],
                         rule='one evaluation = one history written under one schema of a pair and read under the other (forward / downgrade / refuse); pairs: 3 fixed + random append-only evolutions',
                         distribution=dict(stats), outcome_counts=dict(counters), samples=samples, exhaustive=False))
    rc = verdict.finish()
    vlib.write_evidence(PROP, tier, seed, coverage, time.time() - t0, len(verdict.violations), ['pairs bounded in size; append-only evolution generated by construction'])
    sys.exit(rc)


if __name__ == '__main__':
    main()
