#!/usr/bin/env python3
"""C09 — record values copy deeply and compare as a total order.
Detached root records of the OpenTelemetry schema (and of test schemas in the thorough tier) are
built from groups of related values (a value, close mutations of it, an equal twin, float
special cases); on the implementation alone: Cmp is reflexive, antisymmetric, transitive, returns 0
only for identical data (raw dumps, bit-identical floats) and IsEqual agrees; CopyFrom / Clone give
an equal value and neither side sees later mutations of the other.  The model comparison
(coq/Record/Cmp.v, proved a total order in CmpFacts.v) is evaluated on the same dumps and must
return the same sign."""
import collections, itertools, json, os, sys, time
sys.path.insert(0, os.path.dirname(os.path.abspath(__file__)))
import vlib, streamlib, genpkg
from vlib import SplitMix

PROP = 'C09'


def gen_group(g, t, rng, n):
    vals = [g.value(t)]
    for i in range(n - 2):
        base = rng.choice(vals)
        vals.append(g.mutate(t, base))
    vals.append(json.loads(json.dumps(vals[0])))      # an equal twin
    return vals


def float_groups(sch, root):
    """groups whose members differ ONLY in one float position (attribute value, array element,
    oneof alternative, optional field): NaN payloads, signed zero, infinities"""
    pats = ['0000000000000000', '8000000000000000', '7ff8000000000001', '7ff8000000000002', 'fff8000000000001',
            '7ff0000000000000', 'fff0000000000000', '3ff0000000000000', 'bff0000000000000']
    if root != 'Metrics':
        return []
    z = '3ff8000000000000'
    mk = lambda a, b, c, d: [[[]], ['6d', '', '', '0', [['6b', [4, a]]], [b, '3ff0000000000000'], '0', False], ['75', [['6b', [4, a]]], '3'],
                             ['', '', '', [], '0'], [], ['1', '2', c, []]]
    return [[mk(p, z, [2, z], None) for p in pats],
            [mk(z, p, [2, z], None) for p in pats],
            [mk(z, z, [2, p], None) for p in pats],
            [mk(z, z, [3, ['5', p, None, None, []]], None) for p in pats]]


def prefix_groups(sch, root):
    """groups whose members differ ONLY in one inner array of a dictionary struct, the arrays being
    prefixes of one another (Metric.HistogramBounds, an Array-typed attribute value of the Resource)"""
    if root != 'Metrics':
        return []
    b = ['3ff0000000000000', '4000000000000000', '4008000000000000', '4010000000000000']
    arr = lambda k: [5, [[1, '%02x' % (0x61 + i)] for i in range(k)]]
    mk = lambda bounds, k: [[[]], ['6d', '', '', '2', [], bounds, '0', False], ['75', [['6b', arr(k)]], '3'],
                            ['', '', '', [], '0'], [], ['1', '2', [1, '4'], []]]
    return [[mk(b[:n], 2) for n in (4, 3, 2, 1, 0, 3)], [mk(b[:2], n) for n in (4, 3, 2, 1, 0, 3)]]


def array_groups(sch, root):
    """groups whose members differ ONLY in the elements of one primitive array of a dictionary struct
    (Metric.HistogramBounds), same and shorter lengths: an in-place write to a clone must not reach the original"""
    if root != 'Metrics':
        return []
    f = lambda x: '%016x' % (0x3ff0000000000000 + (x << 44))
    mk = lambda bounds: [[[]], ['6d', '', '', '2', [], bounds, '0', False], ['75', [], '3'], ['', '', '', [], '0'], [], ['1', '2', [1, '4'], []]]
    return [[mk([f(1), f(2), f(3), f(4)]), mk([f(9), f(8), f(7), f(6)]), mk([f(5), f(5)]), mk([f(2), f(2), f(2), f(2)]), mk([f(7)]), mk([f(1), f(2), f(3), f(4)])]]


def bytes_groups(sch, root):
    """groups whose members differ ONLY in one bytes position (trace id, span id, parent span id, a Bytes
    attribute value): values of 8 and of 16 bytes whose byte order and word order disagree, with values of
    other lengths lying between them"""
    if root != 'Spans':
        return []
    w8 = ['0000000000000002', '0001', '0100000000000001', '', '00', '0000000000000000', '01', '0200000000000000', '00000000000000ff', 'ff00000000000000']
    w16 = ['00000000000000000000000000000002', '0001', '01000000000000000000000000000001', '00000000000000020000000000000000',
           '00000000000000000100000000000000', '0000000000000002', '0100000000000001', '000000000000000000000000000000', '0000000000000000000000000000000000']
    mk = lambda tid, sid, par, av: [[[]], ['', [], '0'], ['', '', '', [], '0'],
                                    [tid, sid, '', par, '0', '6e', '1', '10', '20', [['6b', [7, av]]], '0', [], [], ['', '0']]]
    z = 'aa'
    return [[mk(x, z, z, z) for x in w16], [mk(z, x, z, z) for x in w8], [mk(z, z, x, z) for x in w8], [mk(z, z, z, x) for x in w8 + w16[:4]]]


def main():
    seed, tier = vlib.seed_and_tier(sys.argv[1] if len(sys.argv) > 1 else 'quick')
    t0 = time.time()
    verdict = vlib.Verdict(PROP)
    info = vlib.proof_stage(PROP, verdict)
    ok_oc, log_oc = vlib.ocaml_build(vlib.ALL_DRIVERS)
    ok_go, log_go, gobin, sch, sj = streamlib.build_otel()
    rng = SplitMix(seed)
    counters, stats, samples = collections.Counter(), collections.Counter(), []
    harnesses = []
    if not ok_go:
        verdict.violation(dict(broken='go build failed', log=log_go[-3000:]), 'harness does not build', no_input=True)
    elif not ok_oc:
        verdict.violation(dict(broken='extraction/ocaml build failed', log=log_oc[-3000:]), 'model does not extract', no_input=True)
    else:
        harnesses.append(('otel', streamlib.Harness('otel', sch, gobin, sj), sch))
        extra = ['all_features.stef', 'json_like.stef', 'profile.stef'] if tier != 'quick' else ['json_like.stef']
        for name in extra:
            import glob
            path = [p for p in glob.glob(f'{vlib.REPO}/stefc/generator/testdata/*.stef') + glob.glob(f'{vlib.REPO}/examples/*/*.stef') if os.path.basename(p) == name]
            if path:
                r = genpkg.build(open(path[0]).read())
                if r['ok']:
                    harnesses.append((name, streamlib.Harness(r['key'], r['sch'], r['bin'], r['sjson']), r['sch']))
    nev = 0
    for hname, h, hs in harnesses:
        cases = []
        for root in hs['roots']:
            g = streamlib.Gen(hs, rng, max_depth=3)
            rid = [i for i, s in enumerate(hs['structs']) if s['name'] == root][0]
            t = {'k': 'struct', 'id': rid}
            for j in range(12 if tier == 'quick' else 120):
                cases.append(dict(id=f'{hname}:{root}:g{j}', root=root, mode='c09', vals=gen_group(g, t, rng, 4 + rng.below(3)), freeze=rng.chance(1, 2), written=rng.chance(1, 2)))
            if hname == 'otel':
                for gi, fg in enumerate(float_groups(hs, root)):
                    cases.append(dict(id=f'{hname}:{root}:floats{gi}', root=root, mode='c09', vals=fg, freeze=False))
                for gi, ag in enumerate(array_groups(hs, root)):
                    for fz in (True, False):
                        cases.append(dict(id=f'{hname}:{root}:arrays{gi}{"z" if fz else ""}', root=root, mode='c09', vals=ag, freeze=fz))
                for gi, bg in enumerate(bytes_groups(hs, root)):
                    cases.append(dict(id=f'{hname}:{root}:bytes{gi}', root=root, mode='c09', vals=bg, freeze=False))
                for gi, pg in enumerate(prefix_groups(hs, root)):
                    for fz in (True, False):
                        cases.append(dict(id=f'{hname}:{root}:prefix{gi}{"z" if fz else ""}', root=root, mode='c09', vals=pg, freeze=fz))
        outs, stderr, rc = h.run_go(cases)
        mlines, mkeys = [], []
        for c, o in zip(cases, outs):
            nev += 1
            r = o.get('c09') or {}
            if o.get('panic') or not r.get('dumps'):
                verdict.violation(dict(case=c, panic=o.get('panic')), f'{c["id"]}: harness/implementation panicked: {(o.get("panic") or "")[:120]}')
                counters['panic'] += 1
                continue
            d, cm, eq = r['dumps'], r['cmp'], r['equal']
            n = len(d)
            stats['values'] += n
            bad = None
            for i in range(n):
                if cm[i][i] != 0:
                    bad = ('not-reflexive', i)
                for j in range(n):
                    if cm[i][j] != -cm[j][i]:
                        bad = ('not-antisymmetric', i, j)
                    if cm[i][j] == 0 and d[i] != d[j]:
                        bad = ('zero-for-different-data', i, j)
                    if d[i] == d[j] and cm[i][j] != 0:
                        bad = ('nonzero-for-identical-values', i, j)
                    if eq[i][j] != (cm[i][j] == 0):
                        bad = ('isequal-disagrees-with-cmp', i, j)
            for i, j, k in itertools.product(range(n), repeat=3):
                if cm[i][j] <= 0 and cm[j][k] <= 0 and cm[i][k] > 0:
                    bad = ('not-transitive', i, j, k)
            for i, msg in enumerate(r.get('copy') or []):
                if msg:
                    bad = ('copy', i, msg)
            if bad:
                verdict.violation(dict(case=c, finding=bad, dumps=[d[x] for x in bad[1:] if isinstance(x, int)][:3]),
                                  f'{c["id"]}: {bad[0]} {bad[1:]}')
                counters[bad[0]] += 1
                continue
            counters['clean'] += 1
            for i in range(n):
                for j in range(n):
                    mlines.append(f'cmp {d[i]} {d[j]}')
                    mkeys.append((c['id'], i, j, cm[i][j]))
        if mlines:
            rcm, mo = vlib.run_lines(h.model, mlines)
            for (cid, i, j, gsign), ml in zip(mkeys, mo):
                if ml.strip() != str(gsign):
                    verdict.violation(dict(case_id=cid, i=i, j=j, implementation=gsign, model=ml[:100],
                                           broken='correspondence C09: model cmp vs generated Cmp'),
                                      f'{cid}: model comparison and generated Cmp disagree on values {i},{j}', no_input=True)
                    counters['correspondence'] += 1
                    break
            else:
                counters['model_pairs_agree'] += len(mkeys)
        if cases and not samples:
            samples.append(dict(id=cases[0]['id'], dumps=(outs[0].get('c09') or {}).get('dumps', [])[:2], cmp=(outs[0].get('c09') or {}).get('cmp')))
    if info['broken'] and not verdict.violations:
        verdict.violation(dict(broken=info['broken']), 'proof obligation no longer checks: ' + '; '.join(info['broken'])[:300], no_input=True)
    coverage = dict(info)
    coverage.pop('broken', None)
    coverage.update(dict(broken_obligations=info['broken'],
                         trusted_base=vlib.TRUSTED_COMMON + ['pointer aliasing between a copy and its source is observed through dumps after mutation, not proved'],
                         evaluations=nev, distinct_nontrivial=counters['clean'],
                         rule='one evaluation = one group of 4-9 related root records: all pairs/triples compared, every value copied, cloned and both sides mutated',
                         distribution=dict(stats), outcome_counts=dict(counters), samples=samples, exhaustive=False))
    rc = verdict.finish()
    vlib.write_evidence(PROP, tier, seed, coverage, time.time() - t0, len(verdict.violations), ['sub-objects are exercised through the root comparison (CmpMetrics / CmpSpans call every nested Cmp)'])
    sys.exit(rc)


if __name__ == '__main__':
    main()
