#!/usr/bin/env python3
"""C10 — code generated for any accepted schema compiles and round-trips (C01 + C02 per schema).
All checked-in test/example schemas plus grammar-directed random schemas go through
stefc (built from the working tree) -> go build -> reflective harness -> model decoder/encoder."""
import collections, glob, json, os, sys, time
sys.path.insert(0, os.path.dirname(os.path.abspath(__file__)))
import vlib, streamlib, genpkg
from vlib import SplitMix
from streamlib import parse_model_line, strip_mask
import check_stream

PROP = 'C10'
PRIMS = ['bool', 'int64', 'uint64', 'float64', 'string', 'bytes']


def random_schema(rng, idx):
    """grammar-directed random schema: <= 8 types, every category, dict modifiers, optional,
    several roots, self / mutual recursion through arrays, oneofs, multimaps and optional fields"""
    nstruct = 2 + rng.below(4)
    noneof = rng.below(3)
    nmap = rng.below(3)
    nenum = rng.below(2)
    structs = [f'S{i}' for i in range(nstruct)]
    oneofs = [f'O{i}' for i in range(noneof)]
    maps = [f'M{i}' for i in range(nmap)]
    enums = [f'E{i}' for i in range(nenum)]
    dict_structs = set(s for s in structs[1:] if rng.chance(1, 4))
    lines = [f'package verif.rnd{idx}', '']

    def prim_type(allow_dict=True):
        p = rng.choice(PRIMS)
        if allow_dict and p in ('string', 'bytes') and rng.chance(1, 3):
            return f'{p} dict(D{p[0].upper()}{rng.below(3)})'      # one dictionary per primitive type (finding C10-dict-shared-by-string-and-bytes)
        return p

    def field_type(owner, in_oneof=False):
        """returns (type text, needs_optional_or_indirection)"""
        k = rng.below(10)
        if k < 4:
            return prim_type(), False
        if k == 4 and enums:
            return rng.choice(enums), False
        if k == 5:
            e = rng.choice(PRIMS + structs + oneofs) if rng.chance(1, 2) else rng.choice(PRIMS)
            if e in ('string', 'bytes') and rng.chance(1, 3):
                return f'[]{e} dict(D{e[0].upper()}{rng.below(3)})', False
            return f'[]{e}', False
        if k == 6 and maps:
            return rng.choice(maps), False
        if k == 7 and oneofs:
            return rng.choice(oneofs), False
        s = rng.choice(structs)
        return s, True          # direct struct reference: recursion must go through optional/array/oneof

    # to keep schemas well-founded: a direct (non-optional) struct field may only refer to a struct
    # with a larger index; anything else becomes optional
    for i, s in enumerate(structs):
        mods = []
        if s in dict_structs:
            mods.append(f'dict({s})')          # code generation requires the dictionary of a struct to carry the struct's name (finding C10-struct-dict-name)
        if i == 0 or rng.chance(1, 6):
            mods.append('root')
        lines.append(f'struct {s} {" ".join(mods)} {{'.replace('  ', ' '))
        nf = 1 + rng.below(5)
        for j in range(nf):
            t, is_struct = field_type(s)
            if s in dict_structs and (is_struct or t.startswith('O') or t.startswith('M') or t.startswith('[]S') or t.startswith('[]O')):
                # a dictionary struct on a recursion cycle does not compile (finding
                # C10-dict-struct-optional-recursion): keep dictionary structs leaf-like
                t, is_struct = rng.choice(['uint64', 'string', '[]int64', 'float64', 'bytes dict(DB0)']), False
            opt = ''
            if is_struct:
                tgt = int(t[1:])
                if tgt <= i:
                    if s in dict_structs or f'S{tgt}' in dict_structs:
                        # recursion through a dictionary struct by an optional field does not compile
                        # (finding C10-dict-struct-optional-recursion)
                        t, is_struct = 'uint64', False
                    else:
                        opt = ' optional'
            elif rng.chance(1, 5) and not t.startswith('['):
                opt = ' optional'
            lines.append(f'  F{j} {t}{opt}')
        lines.append('}')
    for i, o in enumerate(oneofs):
        lines.append(f'oneof {o} {{')
        for j in range(1 + rng.below(4)):
            t, _ = field_type(o, in_oneof=True)
            lines.append(f'  A{j} {t}')
        lines.append('}')
    for i, m in enumerate(maps):
        kt = prim_type() if rng.chance(3, 4) else rng.choice(structs[1:] or structs)
        vt, _ = field_type(m)
        lines.append(f'multimap {m} {{\n  key {kt}\n  value {vt}\n}}')
    for e in enums:
        lines.append(f'enum {e} {{\n  A = 0\n  B = 1\n  C = 5\n}}')
    return '\n'.join(lines) + '\n'


def main():
    seed, tier = vlib.seed_and_tier(sys.argv[1] if len(sys.argv) > 1 else 'quick')
    t0 = time.time()
    verdict = vlib.Verdict(PROP)
    info = vlib.proof_stage(PROP, verdict)
    ok_oc, log_oc = vlib.ocaml_build(vlib.ALL_DRIVERS)
    rng = SplitMix(seed)
    counters, stats, samples = collections.Counter(), collections.Counter(), []
    files = sorted(glob.glob(f'{vlib.REPO}/stefc/generator/testdata/*.stef')) + sorted(glob.glob(f'{vlib.REPO}/examples/*/*.stef'))
    schemas = [(os.path.basename(p), open(p).read()) for p in files]
    nrand = 4 if tier == 'quick' else 120
    for i in range(nrand):
        schemas.append((f'random{i}', random_schema(rng, i)))
    # wide definitions: masks near and beyond the 56 / 64 bit boundaries of the bit reader / writer
    def wide(name, n, nopt, kind='struct'):
        fs = '\n'.join(f'  F{i} {["uint64", "string", "float64", "bool", "int64"][i % 5]}{" optional" if i < nopt and kind == "struct" else ""}' for i in range(n))
        return (name, f'package verif.{name}\nstruct R root {{\n  W W\n  X uint64\n}}\n{kind} W {{\n{fs}\n}}\n')
    schemas += [wide('wide40opt40', 40, 40), wide('wide57', 57, 3), wide('wide64', 64, 0), wide('wide33opt32', 33, 32), wide('oneof63', 63, 0, 'oneof')]
    # a oneof whose alternative is a dictionary struct, next to ordinary alternatives (records handed over
    # with CopyFrom from frozen values exercise the shared-pointer paths of the oneof)
    schemas.append(('oneof-dict-alt', 'package verif.oda\nstruct R root {\n  E Ev\n  N uint64\n  G Ev optional\n}\noneof Ev {\n  H Host\n  K uint64\n  S string\n}\nstruct Host dict(Host) {\n  A string\n  B string\n  C []int64\n}\n'))
    # schemas the parser refuses today; should a change make it accept them they are in scope like any other
    schemas.append(('mayreject-root-and-dict', 'package verif.rd\nstruct A root dict(A) {\n  X uint64\n  Y string\n}\n'))
    schemas.append(('mayreject-dict-and-root', 'package verif.dr\nstruct A dict(A) root {\n  X uint64\n  Y string\n}\n'))
    schemas.append(('mayreject-oneof-root', 'package verif.orr\noneof A root {\n  X uint64\n  Y string\n}\n'))
    # probes of known findings: schemas the compiler accepts whose generated code does not compile
    schemas.append(('probe-struct-dict-name', 'package t.a\nstruct A root {\n X B\n}\nstruct B dict(D) {\n F uint64\n}\n'))
    schemas.append(('probe-dict-struct-optional-recursion', 'package t.c\nstruct A root {\n X B\n}\nstruct B dict(B) {\n F uint64\n N B optional\n}\n'))
    schemas.append(('probe-dict-struct-oneof-recursion', 'package t.k\nstruct A root {\n X B\n}\nstruct B dict(B) {\n F uint64\n O O\n}\noneof O {\n P bool\n Q B\n}\n'))
    schemas.append(('probe-optional-dict-struct-field', 'package t.o\nstruct A root {\n X B optional\n Y uint64\n}\nstruct B dict(B) {\n F uint64\n}\n'))
    schemas.append(('probe-dict-shared-by-string-and-bytes', 'package t.m\nstruct A root {\n X string dict(D)\n Y bytes dict(D)\n}\n'))
    schemas.append(('probe-dict-struct-self-array', 'package t.s\nstruct R root {\n N Node\n X uint64\n}\nstruct Node dict(Node) {\n V uint64\n Kids []Node\n}\n'))
    schemas.append(('probe-shared-struct-dict', 'package t.h\nstruct A root {\n X B\n Y C\n}\nstruct B dict(B) {\n F uint64\n}\nstruct C dict(B) {\n F uint64\n}\n'))
    known = {k['id']: k for k in vlib.load_known() if k['property'] == PROP and k.get('status') == 'known'}
    nhist = 0
    if not ok_oc:
        verdict.violation(dict(broken='extraction/ocaml build failed', log=log_oc[-3000:]), 'model does not extract', no_input=True)
        schemas = []
    for name, text in schemas:
        stats['schemas'] += 1
        r = genpkg.build(text)
        if not r['ok']:
            if r['stage'] == 'own-parser':
                counters['skipped_own_parser'] += 1
                continue
            if r['stage'] == 'stefc-run' and (name.startswith('random') or name.startswith('mayreject')):
                # the compiler rejected a random schema: not a violation (schema not accepted)
                counters['random_rejected'] += 1
                stats['rejected_reason_' + r['log'].strip().splitlines()[-1][:40]] += 1
                continue
            matched = False
            for kid, k in known.items():
                if k.get('matcher', {}).get('schema') == name and k['matcher'].get('stage') == r['stage']:
                    verdict.known_finding(kid, k['what_fails']); matched = True
            if not matched:
                verdict.violation(dict(schema_name=name, schema=text, stage=r['stage'], log=r['log']),
                                  f'{name}: accepted schema does not get through {r["stage"]}')
                counters['build_fail'] += 1
            continue
        sch = r['sch']
        if not sch['roots']:
            counters['no_root'] += 1
            continue
        h = streamlib.Harness(r['key'], sch, r['bin'], r['sjson'])
        cases = []
        if name == 'probe-dict-struct-self-array':
            # a dictionary struct that holds elements of its own dictionary (known finding C10-dict-struct-self-array):
            # one directed history, no random ones
            nd = lambda v, kids: [str(v), [[str(k), []] for k in kids]]
            ops = []
            for k, n in enumerate([nd(2, [5, 6]), nd(3, [5]), nd(2, [5, 6])]):
                ops += [{'op': 'set', 'v': [n, str(k + 1)], 'freeze': False}, {'op': 'w'}]
            ops.append({'op': 'f'})
            cases.append(dict(id=f'{name}:R:directed', root='R', opts=dict(compression=0, maxframe=0, maxdict=0, flags=0, descriptor=False, userdata={}), ops=ops, transcode=''))
        for root in (sch['roots'] if name != 'probe-dict-struct-self-array' else []):
            for j in range((2 if tier == 'quick' else 6) * (4 if name == 'oneof-dict-alt' else 1)):
                opts = streamlib.gen_opts(rng)
                ops = streamlib.gen_history(sch, root, rng, 2 + rng.below(14))
                fz = rng.chance(1, 2)
                for op in ops:
                    if op['op'] == 'set':
                        op['freeze'] = fz
                cases.append(dict(id=f'{name}:{root}:{j}', root=root, opts=opts, ops=ops, transcode=rng.choice(['', 'all', 'odd', 'thirds'])))
        if name == 'oneof-dict-alt':
            # dictionary structs inside the oneof whose fields move between default and non-default values,
            # handed over as frozen values with CopyFrom / Set<Field>, with other alternatives in between
            H = lambda a, b, c: [1, [a, b, c]]
            seqv = [H('61', '62', ['1']), H('63', '', []), H('', '64', ['2', '3']), [2, '5'], H('', '', []), H('65', '66', ['4']),
                    H('65', '', ['4']), [3, '7a'], H('65', '66', []), H('61', '62', ['1'])]
            for cp in (True, False):
                for fz in (True, False):
                    ops = []
                    for k, ev in enumerate(seqv):
                        ops += [{'op': 'set', 'v': [ev, str(k), ev if k % 3 == 0 else None], 'freeze': fz, 'copy': cp}, {'op': 'w'}]
                    ops.append({'op': 'f'})
                    cases.append(dict(id=f'{name}:R:seq-{"copy" if cp else "set"}-{"frozen" if fz else "plain"}', root='R', opts=streamlib.gen_opts(rng), ops=ops, transcode=['odd', 'thirds'][int(fz)]))
        if name == 'oneof-dict-alt':
            # ... and values that change ONE field at a time, re-written by a filtering transcoder: the mask a
            # decoded value carries is relative to its predecessor in the FIRST stream, which the second
            # writer may never have seen
            seq2 = [H('61', '78', []), H('62', '78', []), H('63', '79', []), H('63', '78', []), H('64', '78', ['1']), H('64', '7a', ['1']),
                    H('65', '7a', ['1']), H('65', '7a', []), H('61', '7a', []), H('61', '78', [])]
            for tc in ('odd', 'even', 'thirds', 'all'):
                ops = []
                for k, ev in enumerate(seq2):
                    ops += [{'op': 'set', 'v': [ev, str(k), None], 'freeze': False}, {'op': 'w'}]
                ops.append({'op': 'f'})
                cases.append(dict(id=f'{name}:R:onefield-{tc}', root='R', opts=dict(compression=0, maxframe=0, maxdict=0, flags=0, descriptor=False, userdata={}), ops=ops, transcode=tc))
        nhist += len(cases)
        try:
            outs, stderr, rc = h.run_go(cases, timeout=300)
        except Exception as e:
            verdict.violation(dict(schema_name=name, schema=text, error=str(e)), f'{name}: harness run failed: {str(e)[:100]}')
            continue
        if len(outs) != len(cases):
            verdict.violation(dict(schema_name=name, schema=text, stderr=stderr[-3000:], next_case=cases[len(outs)] if len(outs) < len(cases) else None),
                              f'{name}: generated code crashed the process (fatal error / stack overflow?)')
            counters['crash'] += 1
            continue
        items = [(c['root'], o['stream'], o.get('frames'), c['opts'].get('compression', 0)) for c, o in zip(cases, outs)]
        mlines = h.run_model(items)
        for c, o, ml in zip(cases, outs, mlines):
            m = parse_model_line(ml)
            before = len(verdict.violations)
            sub = collections.Counter()
            c2 = dict(c, schema_name=name, schema_text=text)
            kn = {kid: dict(k2, matcher=dict(k2['matcher'], scenario=c2['id'])) if k2.get('matcher', {}).get('schema') == name and k2['matcher'].get('kind') else k2
                  for kid, k2 in known.items()}
            c2['scenario'] = c2['id']
            check_stream.check_case('C01', c2, o, m, verdict, kn, sub, sch)
            if len(verdict.violations) == before and sub.get('clean'):
                check_stream.check_case('C02', c2, o, m, verdict, kn, sub, sch)
            if len(verdict.violations) > before:
                for v in verdict.violations[before:]:
                    pass
                counters['history_fail'] += 1
                stats['failing_schema_' + name] += 1
            else:
                counters['clean'] += 1
        if len(samples) < 3 and name.startswith('random'):
            samples.append(dict(schema_name=name, schema=text[:1500], histories=len(cases)))
    genpkg.cleanup()
    if info['broken'] and not verdict.violations:
        verdict.violation(dict(broken=info['broken']), 'proof obligation no longer checks: ' + '; '.join(info['broken'])[:300], no_input=True)
    # replay files need the schema text: attach it
    coverage = dict(info)
    coverage.pop('broken', None)
    coverage.update(dict(broken_obligations=info['broken'],
                         trusted_base=vlib.TRUSTED_COMMON + ['stefc is run, not modelled: "compiles" is observed per schema; the round-trip theorems are schema-generic'],
                         evaluations=nhist, distinct_nontrivial=counters['clean'] + counters['history_fail'],
                         rule='one evaluation = one record history on one root of one schema (checked-in test schemas, example schemas, random schemas); distinct by (schema, root, PRNG stream)',
                         distribution=dict(stats), outcome_counts=dict(counters), samples=samples, exhaustive=False))
    rc = verdict.finish()
    vlib.write_evidence(PROP, tier, seed, coverage, time.time() - t0, len(verdict.violations),
                        ['random schemas bounded to <= 8 types', 'go build success observed per sampled schema'])
    sys.exit(rc)


if __name__ == '__main__':
    main()
