#!/usr/bin/env python3
"""C20 — primitive encodings bit-exact over their whole domain.
Proof obligations: coq/Props/C20.v.  Tie: gen/Tables.v regenerated from the Go tables; the
extracted model (which *is* the specification's bit layout) and the real go/pkg + go/pkg/codecs
run the same encoder/decoder command lines; the property oracle (decode(encode x) = x on the
implementation alone) is evaluated on the Go side."""
import os, sys, time, collections
sys.path.insert(0, os.path.dirname(os.path.abspath(__file__)))
import vlib
from vlib import SplitMix

PROP = 'C20'
M64 = (1 << 64) - 1


def gen_cases(rng, tier):
    """returns list of dict(kind, enc, dec(builder), expect) ; enc is a command line."""
    scale = 1 if tier == 'quick' else 6
    cases = []
    stats = collections.Counter()

    def rnd_bits(n):
        return rng.next() & ((1 << n) - 1) if n > 0 else 0

    # (a) compact varint: every leading-zero class x every alignment x boundary/random payloads
    for z in range(16, 65):
        lo = 0 if z == 64 else 1 << (63 - z)
        hi = 0 if z == 64 else (1 << (64 - z)) - 1
        for a in range(64):
            vals = [lo, hi] + [lo + rng.below(hi - lo + 1) for _ in range(scale)]
            v2 = rng.below(1 << 48) >> rng.below(48)
            pre = rnd_bits(a)
            tail = [rnd_bits(64) for _ in range(rng.below(3))]
            ops = [f'w:{pre}:{a}'] + [f'u:{v}' for v in vals] + [f'u:{v2}'] + [f'w:{t}:64' for t in tail]
            rops = [f'r:{a}'] + ['u'] * (len(vals) + 1) + ['r:64'] * len(tail)
            expect = [str(pre)] + [str(v) for v in vals] + [str(v2)] + [str(t) for t in tail]
            cases.append(dict(kind='uvc', enc='bw ' + ' '.join(ops), rops=rops, expect=expect))
            stats['uvc_class_align'] += 1
    # (b) WriteBits/ReadBits: every width 0..64 x every alignment
    for n in range(0, 65):
        for a in range(64):
            pre = rnd_bits(a)
            v = rnd_bits(n)
            w2 = rng.below(65)
            v2 = rnd_bits(w2)
            tail = [rnd_bits(64) for _ in range(rng.below(3))]
            ops = [f'w:{pre}:{a}', f'w:{v}:{n}', f'w:{v2}:{w2}'] + [f'w:{t}:64' for t in tail]
            rops = [f'r:{a}', f'r:{n}', f'r:{w2}'] + ['r:64'] * len(tail)
            expect = [str(pre), str(v), str(v2)] + [str(t) for t in tail]
            cases.append(dict(kind='bits', enc='bw ' + ' '.join(ops), rops=rops, expect=expect))
            stats['bits_width_align'] += 1
    # (c) random mixed op sequences (bit, bits, uvc; peek/consume on the read side)
    for _ in range(400 * scale):
        ops, rops, expect = [], [], []
        for _ in range(1 + rng.below(60)):
            k = rng.below(10)
            if k < 3:
                b = rng.below(2)
                ops.append(f'b:{b}'); rops.append('b'); expect.append(str(b))
            elif k < 7:
                n = rng.below(65); v = rnd_bits(n)
                ops.append(f'w:{v}:{n}')
                if n <= 56 and rng.chance(1, 3):
                    rops += [f'p:{n}', f'c:{n}']; expect += [str(v), '_']
                else:
                    rops.append(f'r:{n}'); expect.append(str(v))
            else:
                v = rng.below(1 << 48) >> rng.below(48)
                ops.append(f'u:{v}'); rops.append('u'); expect.append(str(v))
        cases.append(dict(kind='mixed', enc='bw ' + ' '.join(ops), rops=rops, expect=expect))
        stats['mixed_seq'] += 1
    # (d) LEB128 / zig-zag varints over the 64-bit domain
    us = set([0, 1, 127, 128, 255, 256, M64, M64 - 1, 1 << 63, (1 << 63) - 1, (1 << 63) + 1])
    for k in range(1, 10):
        us |= {(1 << (7 * k)) - 1, 1 << (7 * k), (1 << (7 * k)) + 1}
    for _ in range(200 * scale):
        us.add(rng.next() >> rng.below(64))
    for u in sorted(us):
        cases.append(dict(kind='leb', enc=f'lebenc {u}', decname='lebdec', expect1=f'{u} 0'))
        stats['leb'] += 1
    xs = set([0, 1, -1, 63, 64, -64, -65, (1 << 63) - 1, -(1 << 63), -(1 << 63) + 1])
    for _ in range(200 * scale):
        v = rng.next() >> rng.below(64)
        xs.add(v - (1 << 64) if v >= (1 << 63) else v)
        xs.add(-(v >> 1))
    for x in sorted(xs):
        cases.append(dict(kind='varint', enc=f'vienc {x}', decname='videc', expect1=f'{x} 0'))
        stats['varint'] += 1
    # (e) delta-of-delta columns
    def u64_seq():
        n = 1 + rng.below(30)
        mode = rng.below(5)
        out, cur = [], rng.next() if mode else 0
        step = rng.below(1 << rng.below(40))
        for _ in range(n):
            if mode == 0: cur = rng.choice([0, M64, 1 << 63, 1, (1 << 63) - 1, M64 - 1])
            elif mode == 1: cur = (cur + step) & M64
            elif mode == 2: cur = (cur + rng.below(1 << rng.below(64))) & M64
            elif mode == 3: cur = cur if rng.chance(1, 2) else rng.next()
            else: cur = rng.next()
            out.append(cur)
        return out
    for _ in range(250 * scale):
        vs = u64_seq()
        cases.append(dict(kind='u64', enc='u64enc ' + ' '.join(map(str, vs)), decname='u64dec', count=len(vs),
                          expect1=' '.join(map(str, vs))))
        ivs = [v - (1 << 64) if v >= (1 << 63) else v for v in u64_seq()]
        cases.append(dict(kind='i64', enc='i64enc ' + ' '.join(map(str, ivs)), decname='i64dec', count=len(ivs),
                          expect1=' '.join(map(str, ivs))))
        stats['u64_seq'] += 1; stats['i64_seq'] += 1
    # (f) float columns: (prev leading, prev trailing) x (cur leading, cur trailing) classes
    def xor_with(lead, trail):
        width = 64 - lead - trail
        if width <= 0:
            return 0
        if width == 1:
            return 1 << trail
        mid = rnd_bits(width - 2) if width > 2 else 0
        return ((1 << (width - 1)) | (mid << 1) | 1) << trail
    specials = [0, 1 << 63, 0x7FF0000000000000, 0xFFF0000000000000, 0x7FF8000000000001, 0x7FF0000000000001,
                0xFFFFFFFFFFFFFFFF, 0x3FF0000000000000, 1, 0x000FFFFFFFFFFFFF]
    for l1 in range(0, 64, 4 if tier == 'quick' else 2):
        for t1 in range(0, 64 - l1, 6 if tier == 'quick' else 3):
            base = rng.next()
            v1 = base ^ xor_with(l1, t1)
            seq = [base, v1]
            cur = v1
            for (dl, dt) in ((0, 0), (1, 0), (0, 1), (-1, 0), (0, -1), (3, 2), (-2, -3), (20, 0), (0, 20)):
                l2, t2 = max(0, min(63, l1 + dl)), max(0, t1 + dt)
                if l2 + t2 > 63:
                    continue
                cur = cur ^ xor_with(l2, t2)
                seq.append(cur)
                if rng.chance(1, 4):
                    seq.append(cur)
            cases.append(dict(kind='f64', enc='f64enc ' + ' '.join(map(str, seq)), decname='f64dec', count=len(seq),
                              expect1=' '.join(map(str, seq))))
            stats['f64_class_seq'] += 1
    for _ in range(150 * scale):
        seq = [rng.choice(specials) if rng.chance(1, 3) else rng.next() for _ in range(1 + rng.below(25))]
        cases.append(dict(kind='f64', enc='f64enc ' + ' '.join(map(str, seq)), decname='f64dec', count=len(seq),
                          expect1=' '.join(map(str, seq))))
        stats['f64_random_seq'] += 1
    # (g) bool
    for _ in range(60 * scale):
        bs = [str(rng.below(2)) for _ in range(1 + rng.below(80))]
        cases.append(dict(kind='bool', enc='boolenc ' + ' '.join(bs), decname='booldec', count=len(bs), expect1=' '.join(bs)))
        stats['bool_seq'] += 1
    # (h) strings / bytes, plain and dictionary
    def rstr():
        k = rng.below(8)
        n = [0, 1, 2, 2, 3, 7, 64, 300][k]
        if rng.chance(1, 5):
            # one character that takes 2-4 bytes (the dictionary rule is about BYTES: >= 2 goes in)
            return rng.choice([b'\xc3\xa9', b'\xe4\xb8\x9c', b'\xf0\x9f\x98\x80', b'\xd9\xa3', b'\xc2\x80', b'\xef\xbf\xbd'])
        if rng.chance(1, 2):
            return bytes([97 + rng.below(3)] * n)
        return bytes(rng.below(256) for _ in range(n))
    for _ in range(150 * scale):
        pool = [rstr() for _ in range(1 + rng.below(6))]
        vs = [rng.choice(pool) for _ in range(1 + rng.below(20))]
        hv = [v.hex() if v else '-' for v in vs]
        for enc, dec in (('strenc', 'strdec'), ('sdenc', 'sddec'), ('bytesenc', 'bytesdec'), ('bdenc', 'bddec')):
            cases.append(dict(kind=enc[:-3], enc=enc + ' ' + ' '.join(hv), decname=dec, count=len(vs), expect1=' '.join(hv)))
            stats[enc[:-3] + '_seq'] += 1
    # single-character multi-byte strings first, then new longer strings, then repeats of everything
    for one in (b'\xc3\xa9', b'\xe4\xb8\x9c', b'\xf0\x9f\x98\x80'):
        vs = [one, b'south', b'west', one, b'south', b'x', b'west', b'south', one]
        hv = [v.hex() for v in vs]
        for enc, dec in (('sdenc', 'sddec'), ('bdenc', 'bddec')):
            cases.append(dict(kind=enc[:-3], enc=enc + ' ' + ' '.join(hv), decname=dec, count=len(vs), expect1=' '.join(hv)))
            stats[enc[:-3] + '_single_rune'] += 1
    return cases, stats


def main():
    seed, tier = vlib.seed_and_tier(sys.argv[1] if len(sys.argv) > 1 else 'quick')
    t0 = time.time()
    verdict = vlib.Verdict(PROP)
    info = vlib.proof_stage(PROP, verdict)
    ok_oc, log_oc = vlib.ocaml_build(('prim_driver',))
    ok_go, log_go, gobin = vlib.go_build('prim')
    model = os.path.join(vlib.BUILD, 'prim_driver')
    rng = SplitMix(seed)
    cases, stats = gen_cases(rng, tier)
    n_disagree = n_oracle = 0
    samples = []
    coverage = dict(info)
    if not ok_go:
        verdict.violation(dict(broken='go build of harness/prim against /repo failed', log=log_go[-3000:]),
                          'harness does not build against the working tree', no_input=True)
    elif not ok_oc:
        verdict.violation(dict(broken='extraction/ocaml build failed', log=log_oc[-3000:]),
                          'model does not extract', no_input=True)
    else:
        # phase 1: encoders
        enc_lines = [c['enc'] for c in cases]
        _, go_enc = vlib.run_lines(gobin, enc_lines)
        _, mo_enc = vlib.run_lines(model, enc_lines)
        if len(go_enc) != len(enc_lines) or len(mo_enc) != len(enc_lines):
            verdict.violation(dict(broken='driver output length', go=len(go_enc), model=len(mo_enc), want=len(enc_lines)),
                              'driver crashed', no_input=True)
        else:
            dec_lines, dec_idx = [], []
            for i, c in enumerate(cases):
                g, m = go_enc[i], mo_enc[i]
                if g != m:
                    n_disagree += 1
                    verdict.violation(dict(seed=seed, case=c['enc'], implementation=g, specification_model=m,
                                           how_to_run=f'echo "{c["enc"]}" | build/go_prim ; echo "{c["enc"]}" | build/prim_driver'),
                                      f'{c["kind"]}: emitted bytes differ from the specification encoding')
                    continue
                if c['kind'] in ('uvc', 'bits', 'mixed'):
                    hexb = g.split(' ')[1]
                    dec_lines.append('br ' + hexb + ' ' + ' '.join(c['rops']))
                    c['expect1'] = ' '.join(c['expect'])
                elif c['kind'] in ('leb', 'varint'):
                    dec_lines.append(f'{c["decname"]} {g}')
                else:
                    dec_lines.append(f'{c["decname"]} {g} {c["count"]}')
                dec_idx.append(i)
            # over-read: truncated columns decoded with the original count, and malformed varints
            trunc_lines = []
            for j, i in enumerate(dec_idx):
                c = cases[i]
                if c['kind'] in ('u64', 'i64', 'f64', 'bool', 'str', 'sd', 'bytes', 'bd') and j % (7 if tier == 'quick' else 2) == 0:
                    hexb = go_enc[i]
                    if hexb == '-':
                        continue
                    nb = len(hexb) // 2
                    for cut in sorted(set([0, 1, nb // 2, nb - 1]) if tier == 'quick' else range(nb)):
                        if 0 <= cut < nb:
                            h = hexb[:2 * cut] or '-'
                            trunc_lines.append(f'{c["decname"]} {h} {c["count"] + (2 if c["kind"] in ("bool","f64") else 0)}')
            for extra in ('lebdec -', 'lebdec 80', 'lebdec ffffffffffffffffff01', 'lebdec ffffffffffffffffff02',
                          'lebdec 8080808080808080808000', 'lebdec ffffffffffffffffffff01', 'videc 80', 'videc -',
                          'booldec - 1', 'booldec 80 8', 'booldec 80 64', 'booldec 80 65', 'booldec ffff 72', 'booldec ffff 73',
                          'f64dec - 1', 'f64dec c0 1', 'f64dec ffff 1', 'f64dec fff8 1', 'br - p:0 r:1', 'br - r:0 b',
                          'br ff r:8 r:56 r:1', 'br ff r:8 r:56 p:0 b', 'br ffffffffffffffffffff r:64 r:16 r:56 b',
                          'strdec feffffffffffffffff01 1', 'strdec feffffffffffffffff014142 1', 'sddec feffffffffffffffff014142 1', 'bddec feffffffffffffffff0141 1', 'strdec 0a6162 1', 'strdec 01 1', 'sddec 01 1', 'sddec 03 1', 'strdec 03 1', 'sddec 046162 1'):
                trunc_lines.append(extra)
            all_dec = dec_lines + trunc_lines
            _, go_dec = vlib.run_lines(gobin, all_dec)
            _, mo_dec = vlib.run_lines(model, all_dec)
            if len(go_dec) != len(all_dec) or len(mo_dec) != len(all_dec):
                verdict.violation(dict(broken='driver output length (decode phase)', go=len(go_dec), model=len(mo_dec), want=len(all_dec)),
                                  'driver crashed', no_input=True)
            else:
                for j, line in enumerate(all_dec):
                    g, m = go_dec[j], mo_dec[j]
                    if j < len(dec_lines):
                        c = cases[dec_idx[j]]
                        if g != c['expect1']:
                            n_oracle += 1
                            verdict.violation(dict(seed=seed, encode=c['enc'], decode=line, expected=c['expect1'], implementation=g,
                                                   how_to_run=f'echo "{line}" | build/go_prim'),
                                              f'{c["kind"]}: decode(encode(x)) != x on the implementation')
                            continue
                    if g != m:
                        n_disagree += 1
                        verdict.violation(dict(seed=seed, decode=line, implementation=g, model=m,
                                               how_to_run=f'echo "{line}" | build/go_prim ; echo "{line}" | build/prim_driver'),
                                          'decoder result / over-read error differs from the model')
                # known finding probe: over-read within the 56 phantom bits is not reported
                probe = all_dec.index('booldec 80 64')
                if go_dec[probe].count('E') == 0:
                    for kf in vlib.load_known():
                        if kf['property'] == PROP and kf.get('id') == 'C20-phantom-bits' and kf.get('status') == 'known':
                            verdict.known_finding(kf['id'], kf['what_fails'])
                            break
                    else:
                        verdict.violation(dict(decode='booldec 80 64', implementation=go_dec[probe]),
                                          'bit-column over-read of up to 56 bits returns zero bits without error')
                samples = [dict(encode=cases[dec_idx[k]]['enc'][:200], emitted=go_enc[dec_idx[k]][:120], decode=dec_lines[k][:200],
                                decoded=go_dec[k][:200]) for k in (0, len(dec_lines) // 3, len(dec_lines) - 1)]
                samples.append(dict(overread=trunc_lines[-8], result=go_dec[len(dec_lines) + len(trunc_lines) - 8]))
                coverage['overread_cases'] = len(trunc_lines)
    # broken proof obligations with no failing input found by the search above
    if info['broken'] and not verdict.violations:
        verdict.violation(dict(broken=info['broken'], searched=f'{len(cases)} encoder cases + decoders, none fails'),
                          'proof obligation no longer checks: ' + '; '.join(info['broken'])[:300], no_input=True)
    elif info['broken']:
        for v in verdict.violations[:1]:
            pass
    coverage.update(dict(
        trusted_base=vlib.TRUSTED_COMMON + [
            'modelled, not verified: go/pkg/bitstream.go 64-bit staging register and refill fast path (the model is the bit-string semantics; the correspondence sweeps every width x alignment)',
            'Go math.Float64bits/frombits, encoding/binary varint routines'],
        evaluations=len(cases) + coverage.get('overread_cases', 0),
        distinct_nontrivial=len(set(c['enc'] for c in cases)),
        rule='one case = one column (op sequence) encoded by Go and by the model, then decoded by both from Go bytes; distinct by command text; all cases non-trivial (>=1 value)',
        distribution=dict(stats), disagreements=n_disagree, oracle_failures=n_oracle,
        samples=samples,
        exhaustive=False,
    ))
    coverage.pop('broken', None)
    coverage['broken_obligations'] = info['broken']
    rc = verdict.finish()
    vlib.write_evidence(PROP, tier, seed, coverage, time.time() - t0, len(verdict.violations),
                        ['bit-string model of BitsWriter/BitsReader (phantom-bit error threshold) validated by correspondence only',
                         'values above 2^48 are outside WriteUvarintCompact\'s domain (documented precondition)'])
    sys.exit(rc)


if __name__ == '__main__':
    main()
