#!/usr/bin/env python3
"""C05 / C06 / C07 / C08 — frame-level properties on the OpenTelemetry schema.
usage: check_frames.py C05|C06|C07|C08 [quick|thorough]

C05: every cut offset of sample streams; oracle: records == records of the frames wholly inside
     the prefix, then a non-nil error, never a panic; model reader run on the same prefixes.
C06: interleavings of Write/Flush/Read/Read{TillEndOfFrame}/append on one stream with an
     instrumented source; oracle: flushed records visible, frame-bounded reads never touch the
     source; model reader run on the same op list.
C07: the same stream read through many read-size schedules; oracle: identical records / error class.
C08: limits: frame bits at every record boundary (exact, from the model's re-encoding) and a lower
     bound of the dictionary accounting; resets announced (RestartDictionaries flag) and honoured."""
import collections, json, os, sys, time
sys.path.insert(0, os.path.dirname(os.path.abspath(__file__)))
import vlib, streamlib
from vlib import SplitMix
from streamlib import parse_model_line, strip_mask

def nz(recs):
    """projection used when comparing model and implementation records outside C01/C02: the sign
    of a float zero is dropped (known finding C01-setter-negzero: Clone/copy use setters that
    compare floats with !=, so the Go reader may turn -0 into +0 when it clones a dictionary entry)"""
    return [r.replace('f8000000000000000', 'f0000000000000000') for r in (recs or [])]


DEFAULT_MAX_FRAME = (4 << 20) - 1024
DEFAULT_MAX_DICT = 4 << 20


def small_history(sch, root, rng, nrec, nflush):
    ops = streamlib.gen_history(sch, root, rng, nrec)
    ops = [o for o in ops if o['op'] != 'f']
    # place flushes
    widx = [i for i, o in enumerate(ops) if o['op'] == 'w']
    places = sorted(set(rng.choice(widx) for _ in range(nflush)) | {widx[-1]})
    out = []
    for i, o in enumerate(ops):
        out.append(o)
        if i in places:
            out.append({'op': 'f'})
    fz = rng.chance(1, 2)
    for o in out:
        if o['op'] == 'set':
            o['freeze'] = fz
    return out


# ------------------------------------------------------------------------------ C05
def run_c05(h, sch, rng, tier, verdict, counters, stats, samples):
    cases = []
    n = 10 if tier == 'quick' else 80
    for i in range(n):
        root = 'Metrics' if i % 2 == 0 else 'Spans'
        opts = dict(compression=i % 2 if i % 4 < 2 else (i // 2) % 2, maxframe=rng.choice([0, 0, 300]), maxdict=rng.choice([0, 0, 200]),
                    flags=rng.choice([0, 1, 4, 5, 7, 2, 3, 6]), descriptor=rng.chance(1, 3), userdata={})
        nrec = 3 + rng.below(6 if tier == 'quick' else 14)
        ops = small_history(sch, root, rng, nrec, 1 + rng.below(3))
        cases.append(dict(id=f'c5-{i}', root=root, opts=opts, ops=ops, mode='cuts'))
        stats[f'compr_{opts["compression"]}'] += 1
        stats[f'flags_{opts["flags"]}'] += 1
    # streams whose last column is large (> 4 KiB, > any buffer the reader holds): cuts sampled
    big = 'cd' * 6000
    ex = lambda v: [['5', [1, '7'], '', '', [['6b', [7, v]]]]]
    mrec = lambda v, t: [[[]], ['6d', '', '', '0', [], [], '0', False], ['', [], '0'], ['', '', '', [], '0'], [], [str(t), '2', [1, '4'], ex(v)]]
    for compr in (0, 1):
        ops = [{'op': 'set', 'v': mrec('01', 1), 'freeze': True}, {'op': 'w'}, {'op': 'f'},
               {'op': 'set', 'v': mrec(big, 2), 'freeze': True}, {'op': 'w'}, {'op': 'set', 'v': mrec(big[:-4], 3), 'freeze': True}, {'op': 'w'}, {'op': 'f'}]
        cases.append(dict(id=f'c5-big-last-column-c{compr}', root='Metrics', opts={'compression': compr, 'flags': 0}, ops=ops, mode='',
                          cuts=[-1]))
    # a frame of several zstd blocks (> 128 KiB of content that does not compress): cuts inside the later
    # blocks and at their boundaries come after the record count of the frame has been decoded
    noise = lambda n: ''.join('%016x' % rng.next() for _ in range(n // 8))
    for compr in (1, 0):
        ops = [{'op': 'set', 'v': mrec('01', 1), 'freeze': True}, {'op': 'w'}, {'op': 'f'}]
        for t in range(5):
            ops += [{'op': 'set', 'v': mrec(noise(70000), 2 + t), 'freeze': True}, {'op': 'w'}]
        ops += [{'op': 'f'}, {'op': 'set', 'v': mrec('02', 9), 'freeze': True}, {'op': 'w'}, {'op': 'f'}]
        cases.append(dict(id=f'c5-multi-block-frame-c{compr}', root='Metrics', opts={'compression': compr, 'flags': rng.choice([0, 2, 4])}, ops=ops, mode='',
                          cuts=[-1], multiblock=True))
    outs, stderr, rc = h.run_go([c for c in cases if c.get('cuts') != [-1]], timeout=1500)
    # big cases: first pass to learn the length, then sampled cuts
    bigc = [c for c in cases if c.get('cuts') == [-1]]
    for c in bigc:
        c['cuts'] = []
    bouts, _, _ = h.run_go(bigc)
    for c, o in zip(bigc, bouts):
        nb = len(o['stream']) // 2
        if c.get('multiblock'):
            # zstd blocks of incompressible content are 128 KiB of content + 3 bytes of block header each
            blk = [200 + j * 131075 + d for j in range(1, 4) for d in range(-40, 41, 4)]
            c['cuts'] = sorted(set(list(range(0, 120, 7)) + list(range(120, nb, 4099)) + blk + list(range(max(0, nb - 60), nb + 1))) & set(range(nb + 1)))
            continue
        c['cuts'] = sorted(set(list(range(0, min(nb, 300))) + list(range(300, nb, 97)) + list(range(max(0, nb - 200), nb + 1))
                               + [nb - 3000, nb - 6000, nb - 9000, nb - 11000]) & set(range(nb + 1)))
    bouts, _, _ = h.run_go(bigc)
    outs += bouts
    if len(outs) != len(cases):
        verdict.violation(dict(broken='go harness crashed', stderr=stderr), 'harness process died', no_input=False)
        return 0
    # model on complete streams gives frame record counts
    items = [(c['root'], o['stream'], o.get('frames'), c['opts']['compression']) for c, o in zip(cases, outs)]
    full = [parse_model_line(l) for l in h.run_model(items)]
    total_cuts = 0
    model_items, model_keys = [], []
    for c, o, mf in zip(cases, outs, full):
        stream = o['stream']
        nbytes = len(stream) // 2
        written = o['written']
        chunks = o['chunks']
        if mf.get('end') != 'eos':
            verdict.violation(dict(case=c, model=mf.get('raw'), broken='correspondence C05: model cannot read the complete stream'),
                              f'{c["id"]}: model rejects complete stream', no_input=True)
            continue
        nrecs = [int(f.split(':')[1]) for f in mf['frames']]      # per data frame
        # frame end offsets: chunks[0]=fixed hdr, chunks[1]=var header, rest = data frames
        ends, acc = [], chunks[0] + chunks[1]
        hdr_end = acc
        for ln in chunks[2:]:
            acc += ln
            ends.append(acc)
        stats['streams'] += 1
        stats['cut_offsets'] += nbytes + 1
        for k in range(nbytes + 1):
            total_cuts += 1
            r = o['cuts'].get(str(k))
            if r is None:
                continue
            exp_n = sum(nr for e, nr in zip(ends, nrecs) if e <= k)
            got = [strip_mask(x) for x in (r.get('recs') or [])]
            replay = dict(case=dict(c, mode='cuts', cuts=[k]), cut=k, stream_len=nbytes, frame_ends=ends, frame_records=nrecs,
                          expected_records=exp_n, got=dict(n=len(got), err=r.get('err'), openerr=r.get('openerr'), panic=r.get('panic')))
            if r.get('panic'):
                verdict.violation(replay, f'{c["id"]} cut {k}: reader panicked: {r["panic"][:100]}'); counters['panic'] += 1; break
            if k < hdr_end:
                if not r.get('openerr') or got:
                    verdict.violation(replay, f'{c["id"]} cut {k}: header incomplete but reader created / records returned'); counters['hdr'] += 1; break
                continue
            if k < nbytes and not (r.get('err') or r.get('openerr')):
                verdict.violation(replay, f'{c["id"]} cut {k}: no error reported for a truncated stream'); counters['noerr'] += 1; break
            if got != written[:exp_n]:
                verdict.violation(replay, f'{c["id"]} cut {k}: {len(got)} records returned, expected exactly the {exp_n} of the complete frames'); counters['records'] += 1; break
            counters['clean_cuts'] += 1
            # model on a sample of prefixes (all of them for small uncompressed streams)
            if c['opts']['compression'] == 0 and (nbytes <= 1500 or (k % 7 == 0 and nbytes < 10000) or k in ends or (k + 1) in ends or (k - 1) in ends):
                model_items.append((c['root'], stream[:2 * k], None, 0)); model_keys.append((c['id'], k, len(got), bool(r.get('openerr'))))
            elif c['opts']['compression'] == 1 and k in ends:
                nfr = 1 + sum(1 for e in ends if e <= k)
                model_items.append((c['root'], None, o['frames'][:nfr], 1)); model_keys.append((c['id'], k, len(got), False))
    mres = h.run_model(model_items) if model_items else []
    for (cid, k, ngo, openerr), ml in zip(model_keys, mres):
        m = parse_model_line(ml)
        nm = len(m.get('recs', []))
        m_open = m.get('open') == 'ok'
        if nm != ngo or (m_open == openerr):
            verdict.violation(dict(case_id=cid, cut=k, model=m.get('raw'), go_records=ngo, go_openerr=openerr,
                                   broken='correspondence C05: model reader vs generated reader on a truncated stream'),
                              f'{cid} cut {k}: model and implementation disagree on a truncated stream', no_input=True)
            counters['correspondence'] += 1
        else:
            counters['model_agree'] += 1
    samples.append(dict(id=cases[0]['id'], opts=cases[0]['opts'], stream_bytes=len(outs[0]['stream']) // 2, chunks=outs[0]['chunks'],
                        cut_results={k: dict(n=len(v.get('recs') or []), err=v.get('err'), openerr=v.get('openerr'))
                                     for k, v in list(outs[0]['cuts'].items())[::max(1, len(outs[0]['cuts']) // 6)]}))
    return total_cuts


# ------------------------------------------------------------------------------ C07
def schedules(rng, nbytes, tier):
    s = {'one': [1] * (nbytes + 2), 'two': [2] * (nbytes + 2), 'three': [3] * nbytes,
         'half': [max(1, nbytes // 2)] * 4, 'eof_with_data': [-1], 'one_eof': [-1] + [1] * (nbytes + 2),
         'hdr_split_4_1_1_1': [4, 1, 1, 1, 1, 1, 1], 'hdr_split_3': [3, 1, 2, 1, 5, 1, 7]}
    for i in range(4 if tier == 'quick' else 24):
        s[f'rnd{i}'] = [1 + rng.below(rng.choice([2, 5, 17, 300])) for _ in range(60 + rng.below(300))]
    if tier != 'quick':
        # exhaustive: all schedules over the first 12 reads with sizes in {1,2,3}
        import itertools
        for j, combo in enumerate(itertools.product([1, 2, 3], repeat=6)):
            s[f'ex{j}'] = list(combo) + [1 << 20]
    return s


def run_c07(h, sch, rng, tier, verdict, counters, stats, samples):
    cases = []
    n = 12 if tier == 'quick' else 60
    for i in range(n):
        root = 'Metrics' if i % 2 == 0 else 'Spans'
        opts = streamlib.gen_opts(rng)
        opts['maxframe'] = rng.choice([0, 200, 1000])
        ops = small_history(sch, root, rng, 4 + rng.below(12), 1 + rng.below(3))
        cases.append(dict(id=f'c7-{i}', root=root, opts=opts, ops=ops))
    for i, c in enumerate(cases):
        if i % 2 == 0:
            c['opts']['userdata'] = {'tenant': 'acme-' + 'x' * rng.below(40), 'collector': 'eu-west-%d' % i, 'k': ''}
    # one stream whose LAST column alone exceeds bufio's 64 KiB buffer (large-read bypass, data
    # delivered together with io.EOF): only Span.Status.Code changes from record to record
    big = 'ab' * 200000           # 200 KB bytes value: AnyValue.Bytes under Exemplar.FilteredAttributes is the last column of Metrics
    ex = lambda v: [['5', [1, '7'], '', '', [['6b', [7, v]]]]]
    mrec = lambda v: [[[]], ['6d', '', '', '0', [], [], '0', False], ['', [], '0'], ['', '', '', [], '0'], [], ['1', '2', [1, '4'], ex(v)]]
    big_ops = [{'op': 'set', 'v': mrec(big), 'freeze': True}, {'op': 'w'}, {'op': 'set', 'v': mrec(big[:-2]), 'freeze': True}, {'op': 'w'}, {'op': 'f'}]
    cases.append(dict(id='c7-big-last-column', root='Metrics', opts={'compression': 0, 'flags': 0}, ops=big_ops))
    outs, stderr, rc = h.run_go(cases)
    # second pass: read each stream through the schedules
    rcases = []
    for c, o in zip(cases, outs):
        nb = len(o['stream']) // 2
        sc = schedules(rng, nb, tier)
        if nb > 70000:
            sc = {'eof_with_data': [-1], 'big_then_eof': [-1, 7, 1 << 20], 'one_then_big': [1] * 50 + [1 << 20], 'rnd_big': [1 + rng.below(70000) for _ in range(40)]}
        rcases.append(dict(id=c['id'], root=c['root'], opts=c['opts'], mode='readonly', stream=o['stream'], scheds=sc))
    # also corrupted / truncated streams: the error class must not depend on the schedule either
    for c, o in list(zip(cases, outs))[:6]:
        st = bytearray.fromhex(o['stream'])
        if len(st) > 20:
            st2 = bytes(st[:len(st) - 1 - rng.below(10)])
            rcases.append(dict(id=c['id'] + '-trunc', root=c['root'], opts=c['opts'], mode='readonly', stream=st2.hex(),
                               scheds=schedules(rng, len(st2), 'quick')))
    routs, stderr, rc = h.run_go(rcases, timeout=1500)
    nsched = 0
    for c, o in zip(rcases, routs):
        base = o['read']
        bkey = (base.get('recs'), bool(base.get('err')) , bool(base.get('openerr')), base.get('err') == 'eof', base.get('ud'))
        for name, r in sorted(o['scheds'].items()):
            nsched += 1
            stats['schedules'] += 1
            key = (r.get('recs'), bool(r.get('err')), bool(r.get('openerr')), r.get('err') == 'eof', r.get('ud'))
            if r.get('panic') or key != bkey:
                verdict.violation(dict(case=dict(id=c['id'], root=c['root'], mode='readonly', stream=c['stream'], scheds={name: c['scheds'][name]}),
                                       schedule=name, plain=dict(n=len(base.get('recs') or []), err=base.get('err'), openerr=base.get('openerr')),
                                       scheduled=dict(n=len(r.get('recs') or []), err=r.get('err'), openerr=r.get('openerr'), panic=r.get('panic'))),
                                  f'{c["id"]}: result depends on the read schedule {name!r}: {r.get("openerr") or r.get("err")!r} vs {base.get("openerr") or base.get("err")!r}')
                counters['schedule_dependent'] += 1
                break
        else:
            counters['clean_streams'] += 1
    # model: a function of the bytes only; must agree with the plain read
    items = [(c['root'], c['stream'], o.get('frames'), c['opts'].get('compression', 0)) for c, o in zip(rcases, routs) if not c['id'].endswith('-trunc')]
    for (c, o), ml in zip([(c, o) for c, o in zip(rcases, routs) if not c['id'].endswith('-trunc')], h.run_model(items)):
        m = parse_model_line(ml)
        if nz(m.get('recs')) != nz(o['read'].get('recs') or []):
            verdict.violation(dict(case_id=c['id'], model=m.get('raw'), broken='correspondence C07: model reader vs generated reader'),
                              f'{c["id"]}: model and implementation disagree', no_input=True)
    samples.append(dict(id=rcases[0]['id'], stream_bytes=len(rcases[0]['stream']) // 2, schedules=list(rcases[0]['scheds'].keys())[:12],
                        example=rcases[0]['scheds']['hdr_split_3']))
    return nsched


# ------------------------------------------------------------------------------ C08
def run_c08(h, sch, rng, tier, verdict, counters, stats, samples):
    cases = []
    n = 40 if tier == 'quick' else 400
    for i in range(n):
        root = 'Metrics' if i % 2 == 0 else 'Spans'
        opts = dict(compression=rng.below(2), maxframe=rng.choice([1, 7, 64, 200, 500, 3000, 0]),
                    maxdict=rng.choice([1, 16, 64, 200, 500, 3000, 0]), flags=rng.choice([0, 0, 1, 4, 5, 2, 7]),
                    descriptor=False, userdata={})
        ops = small_history(sch, root, rng, 5 + rng.below(30), rng.below(3))
        cases.append(dict(id=f'c8-{i}', root=root, opts=opts, ops=ops))
        stats[f'maxframe_{opts["maxframe"]}'] += 1
        stats[f'maxdict_{opts["maxdict"]}'] += 1
    # records dominated by dictionary hits: 60-70 attributes whose keys and values come from a small
    # pool and whose key set rotates, so every record re-encodes the whole map as references
    pool_k = [('6b' + '%02x' % i) * (4 + i % 7) for i in range(90)]
    pool_v = [('76' + '%02x' % i) * (3 + i % 5) for i in range(40)]
    for i in range(4 if tier == 'quick' else 24):
        nattr = 60 + rng.below(11)
        ops = []
        for r in range(12 + rng.below(20)):
            off = rng.below(20)
            attrs = [[pool_k[(off + j) % len(pool_k)], [1, pool_v[(off * 3 + j) % len(pool_v)]]] for j in range(nattr)]
            v = [[[]], ['6d', '', '', '0', [], [], '0', False], ['', [], '0'], ['', '', '', [], '0'], attrs, [str(r), '2', [1, str(r)], []]]
            ops += [{'op': 'set', 'v': v}, {'op': 'w'}]
        ops.append({'op': 'f'})
        opts = dict(compression=rng.below(2), maxframe=rng.choice([500, 1000, 4000]), maxdict=0, flags=0, descriptor=False, userdata={})
        cases.append(dict(id=f'c8-dict-hits-{i}', root='Metrics', opts=opts, ops=ops))
        stats[f'maxframe_{opts["maxframe"]}'] += 1
    outs, stderr, rc = h.run_go(cases)
    items = [(c['root'], o['stream'], o.get('frames'), c['opts']['compression']) for c, o in zip(cases, outs)]
    sizes = {int(kv.split(':')[0]): int(kv.split(':')[1]) for kv in h.sizes.split()}
    dict_struct_size = {}
    for sid, s in enumerate(sch['structs']):
        if s['dictid'] is not None:
            dict_struct_size[s['dictid'] + 1] = sizes.get(sid, 0)     # model keys dictionaries by id+1 (positive)
    for c, o, ml in zip(cases, outs, h.run_model(items)):
        m = parse_model_line(ml)
        toks = ml.split(' ')
        F = c['opts']['maxframe'] or DEFAULT_MAX_FRAME
        L = c['opts']['maxdict'] or DEFAULT_MAX_DICT
        restart_every = bool(c['opts']['flags'] & 1)
        written = o['written']
        if m.get('end') != 'eos' or [strip_mask(r) for r in m.get('recs', [])] != written or m.get('reenc') != 'ok':
            # the limits must not cost correctness: a stream written under frame / dictionary limits and
            # restart flags that does not decode to what was written means a reset was announced but not
            # performed (or performed but not announced)
            verdict.violation(dict(case=c, finding='not-decodable', go_read_err=(o.get('read') or {}).get('err'), model=m.get('raw')),
                              f'{c["id"]}: stream written with limits F={F} L={L} flags={c["opts"]["flags"]} does not decode to the written records (model end: {m.get("end")}, reenc: {m.get("reenc")})')
            counters['not_roundtrip'] += 1
            continue
        # walk tokens: f:<fl>:<nrec>:<len> followed by nrec m: tokens
        frames = []
        for t in toks:
            if t.startswith('f:'):
                fl, nr, ln = map(int, t[2:].split(':'))
                frames.append(dict(fl=fl, nrec=nr, len=ln, recs=[]))
            elif t.startswith('m:'):
                bits, sd, td = t[2:].split(':')
                tdd = dict((int(kv.split('=')[0]), int(kv.split('=')[1])) for kv in td.split(',') if kv)
                frames[-1]['recs'].append((int(bits), int(sd), tdd))
        flush_after = set()       # record indices after which the history flushes
        k = 0
        for op in c['ops']:
            if op['op'] == 'w':
                k += 1
            elif op['op'] == 'f':
                flush_after.add(k)
        recno = 0
        bad = None
        epoch_start = True
        for fi, fr in enumerate(frames):
            if fr['nrec'] == 0:
                bad = ('empty-frame', fi); break
            # a frame that restarts dictionaries must follow a frame whose writer reset them: the
            # stream decodes (checked above), so announcement and reset agree; here: the limits
            for ri, (bits, sd, tdd) in enumerate(fr['recs']):
                recno += 1
                last = ri == fr['nrec'] - 1
                dict_lb = sd + sum(cnt * dict_struct_size.get(did, 0) for did, cnt in tdd.items())
                if not last:
                    # the writer kept the frame open after this record: neither limit was reached
                    if bits >= 8 * F:
                        bad = ('frame-limit', fi, ri, bits, 8 * F); break
                    if dict_lb >= L:
                        bad = ('dict-limit', fi, ri, dict_lb, L); break
                    if restart_every:
                        bad = ('restart-flag-not-per-record', fi, ri); break
            if bad:
                break
            # uncompressed content bound: limiter bits of all but the last record < 8F, so
            # len <= F + bytes(last record) + size table + per-column padding + 2 varints
            if fi + 1 < len(frames):
                nxt = frames[fi + 1]
                closed_by_limit = recno not in flush_after
                reached_dict = False
                bits, sd, tdd = fr['recs'][-1]
                dict_lb_end = sd + sum(cnt * dict_struct_size.get(did, 0) for did, cnt in tdd.items())
                if (nxt['fl'] & 1) and not restart_every:
                    counters['dict_resets'] += 1
                # the dictionary limit holds across frames too: a frame may only follow without
                # announcing a dictionary reset if the limit was not reached at its predecessor's end
                if dict_lb_end >= L and not (nxt['fl'] & 1):
                    bad = ('dict-limit-across-frames', fi, dict_lb_end, L); break
                if closed_by_limit and not restart_every and bits < 8 * F and not (nxt['fl'] & 1):
                    bad = ('frame-closed-without-reason', fi, bits, 8 * F); break
        if bad:
            verdict.violation(dict(case=c, finding=bad, frames=[dict(fl=f['fl'], nrec=f['nrec'], len=f['len']) for f in frames],
                                   model=m.get('raw')),
                              f'{c["id"]}: {bad[0]} at frame {bad[1]}: limits F={F} L={L} not honoured ({bad[2:]})')
            counters[bad[0]] += 1
        else:
            counters['clean'] += 1
            counters['frames'] += len(frames)
    c0, o0 = cases[0], outs[0]
    samples.append(dict(id=c0['id'], opts=c0['opts'], frames=[dict(fl=f['fl'], usize=f['usize']) for f in (o0.get('frames') or [])][:12]))
    return len(cases)


# ------------------------------------------------------------------------------ C06
def gen_c06(sch, root, rng, nsteps):
    g = streamlib.Gen(sch, rng)
    rid = [i for i, s in enumerate(sch['structs']) if s['name'] == root][0]
    t = {'k': 'struct', 'id': rid}
    cur = g.value(t)
    ops = [{'op': 'set', 'v': cur, 'freeze': True}, {'op': 'w'}, {'op': 'f'}, {'op': 'open'}]
    for _ in range(nsteps):
        k = rng.below(10)
        if k < 4:
            cur = g.mutate(t, cur)
            ops += [{'op': 'set', 'v': cur, 'freeze': True}, {'op': 'w'}]
        elif k < 6:
            ops.append({'op': 'f'})
        elif k < 8:
            ops.append({'op': 'r'})
        else:
            ops.append({'op': 'rf'})
    # final: flush and drain
    ops.append({'op': 'f'})
    ops += [{'op': 'r'}] * 3 + [{'op': 'rf'}] * 2 + [{'op': 'r'}] * (nsteps + 4)
    return ops


def run_c06(h, sch, rng, tier, verdict, counters, stats, samples):
    cases = []
    n = 40 if tier == 'quick' else 400
    for i in range(n):
        root = 'Metrics' if i % 2 == 0 else 'Spans'
        opts = dict(compression=rng.below(2), maxframe=rng.choice([0, 0, 200, 600]), maxdict=rng.choice([0, 0, 300]),
                    flags=rng.choice([0, 0, 1, 4, 5, 2, 6, 7]), descriptor=rng.chance(1, 4), userdata={})
        cases.append(dict(id=f'c6-{i}', root=root, opts=opts, mode='c06', ops=gen_c06(sch, root, rng, 6 + rng.below(30))))
        stats[f'compr_{opts["compression"]}'] += 1
    outs, stderr, rc = h.run_go(cases)
    mlines, mcases = [], []
    for c, o in zip(cases, outs):
        steps = o.get('steps') or []
        written = o.get('written') or []
        stats['steps'] += len(steps)
        if o.get('panic') or o.get('werr'):
            verdict.violation(dict(case=c, panic=o.get('panic'), werr=o.get('werr')), f'{c["id"]}: writer/reader panicked or failed: {(o.get("panic") or o.get("werr"))[:100]}')
            continue
        nw = nflushed = nread = 0
        bad = None
        for i, st in enumerate(steps):
            op, res = st['op'], st.get('res', '')
            if op == 'w':
                nw += 1
            elif op == 'f':
                nflushed = nw
            elif op == 'open':
                if res != 'ok':
                    bad = ('open-failed-after-flush', i, res)
            elif op in ('r', 'rf'):
                if op == 'rf' and st['reads'] != 0:
                    bad = ('frame-bounded-read-touched-source', i, st['reads'])
                if res.startswith('rec:') and st.get('empty', 0) != 0:
                    # "readable at once": the record was available, yet the reader asked the source for
                    # more when it had nothing left - on a pipe or a socket this Read would have blocked
                    bad = ('read-of-flushed-record-would-block', i, st.get('empty'))
                if op == 'open' and res == 'ok' and st.get('empty', 0) != 0:
                    bad = ('open-would-block', i, st.get('empty'))
                if res.startswith('rec:'):
                    if nread >= len(written) or strip_mask(res[4:]) != written[nread]:
                        bad = ('wrong-or-fabricated-record', i, nread)
                    nread += 1
                    if nread > nw:
                        bad = ('record-before-written', i, nread)
                elif res == 'eoframe':
                    if op != 'rf':
                        bad = ('eoframe-on-unrestricted-read', i)
                elif res == 'eof':
                    if nread < nflushed:
                        bad = ('flushed-records-not-readable', i, nread, nflushed)
                else:
                    bad = ('unexpected-result', i, res[:80])
            if bad:
                break
        if not bad and nread != len(written):
            bad = ('not-all-read-after-final-flush', len(steps), nread, len(written))
        if not bad and (o.get('wcount') != len(written) or o.get('rcount') != nread):
            bad = ('record-counters', o.get('wcount'), o.get('rcount'), len(written), nread)
        if bad:
            verdict.violation(dict(case=c, finding=bad, steps=[dict(op=s['op'], res=s.get('res', '')[:60], reads=s.get('reads')) for s in steps]),
                              f'{c["id"]}: {bad[0]} at step {bad[1]}')
            counters[bad[0]] += 1
            continue
        counters['clean'] += 1
        # model on the same op list (uncompressed streams)
        if c['opts']['compression'] == 0:
            stream = o['stream']
            toks, off = [], 0
            for st in steps:
                if st['avail'] > off:
                    toks.append('a:' + stream[2 * off:2 * st['avail']]); off = st['avail']
                if st['op'] == 'open':
                    toks.append('o')
                elif st['op'] in ('r', 'rf'):
                    toks.append(st['op'])
            mlines.append(f'c06 {h.name} {h.rootid(c["root"])} ' + ' '.join(toks))
            mcases.append((c, [s for s in steps if s['op'] in ('open', 'r', 'rf')]))
    if mlines:
        rcm, mo = vlib.run_lines(h.model, h.prelude + mlines)
        mo = mo[len(h.prelude):]
        for (c, rsteps), ml in zip(mcases, mo):
            mres = ml.split(' ')
            gres = []
            for s in rsteps:
                r = s.get('res', '')
                gres.append(('o=' if s['op'] == 'open' else s['op'] + '=') + ('ok' if r == 'ok' else r))
            mres, gres = nz(mres), nz(gres)
            if mres != gres:
                i = next((i for i in range(min(len(mres), len(gres))) if mres[i] != gres[i]), min(len(mres), len(gres)))
                verdict.violation(dict(case=c, step=i, model=(mres[i] if i < len(mres) else None), implementation=(gres[i] if i < len(gres) else None),
                                       broken='correspondence C06: model reader LTS vs generated reader'),
                                  f'{c["id"]}: model and implementation disagree at reader step {i}', no_input=True)
                counters['correspondence'] += 1
            else:
                counters['model_agree'] += 1
    c0, o0 = cases[0], outs[0]
    samples.append(dict(id=c0['id'], opts=c0['opts'], steps=[dict(op=s['op'], res=(s.get('res') or '')[:40], reads=s.get('reads'), avail=s.get('avail')) for s in (o0.get('steps') or [])][:30]))
    return len(cases)


RUNNERS = {'C05': run_c05, 'C06': run_c06, 'C07': run_c07, 'C08': run_c08}


def main():
    prop = sys.argv[1]
    seed, tier = vlib.seed_and_tier(sys.argv[2] if len(sys.argv) > 2 else 'quick')
    t0 = time.time()
    verdict = vlib.Verdict(prop)
    info = vlib.proof_stage(prop, verdict)
    ok_oc, log_oc = vlib.ocaml_build(vlib.ALL_DRIVERS)
    ok_go, log_go, gobin, sch, sj = streamlib.build_otel()
    rng = SplitMix(seed)
    counters, stats, samples = collections.Counter(), collections.Counter(), []
    evals = 0
    if not ok_go:
        verdict.violation(dict(broken='go build of harness/otel failed', log=log_go[-3000:]), 'harness does not build', no_input=True)
    elif not ok_oc:
        verdict.violation(dict(broken='extraction/ocaml build failed', log=log_oc[-3000:]), 'model does not extract', no_input=True)
    else:
        h = streamlib.Harness('otel', sch, gobin, sj)
        evals = RUNNERS[prop](h, sch, rng, tier, verdict, counters, stats, samples)
    if info['broken'] and not verdict.violations:
        verdict.violation(dict(broken=info['broken'], searched=f'{evals} cases, no failing input'),
                          'proof obligation no longer checks: ' + '; '.join(info['broken'])[:300], no_input=True)
    coverage = dict(info)
    coverage.pop('broken', None)
    coverage.update(dict(broken_obligations=info['broken'],
                         trusted_base=vlib.TRUSTED_COMMON + ['zstd (klauspost/compress) through the library\'s FrameDecoder: trusted; its prefix behaviour is observed at every cut offset, not modelled',
                                                             'Go bufio.Reader semantics (one underlying Read per fill)'],
                         evaluations=evals, distinct_nontrivial=sum(v for k, v in counters.items() if k.startswith('clean')) or evals,
                         rule='C05: one evaluation = one cut offset of one stream; C06: one op list; C07: one (stream, schedule) pair; C08: one history with limits; all distinct by construction',
                         distribution=dict(stats), outcome_counts=dict(counters), samples=samples,
                         exhaustive=(prop == 'C05')))
    rc = verdict.finish()
    vlib.write_evidence(prop, tier, seed, coverage, time.time() - t0, len(verdict.violations),
                        ['C05: exhaustive over the cut offsets of the sampled streams, not over all streams',
                         'C08: dictionary accounting checked through a lower bound (string bytes + 16, struct entries x unsafe.Sizeof)'])
    sys.exit(rc)


if __name__ == '__main__':
    main()
