#!/usr/bin/env python3
"""C14 / C19 — the gRPC handshake and the collector pipeline.
usage: check_grpc.py C14|C19 [quick|thorough]

C14: proofs coq/Props/C14.v over coq/Net/Handshake.v (Compatible as coded, Connect's four-way case,
     the writer's re-check, the server reader's check, the dictionary limit).  Tie: schema pairs
     (identical, server ahead, client ahead, diverged with equal / different totals, unrelated) are
     compiled with stefc from the working tree into one binary per pair (tools/genpair.py); the REAL
     StreamServer + a generated reader and the REAL Client.Connect + a generated writer run in one
     process; the model's decision for every sampled (client, server, limit) is evaluated inside
     Coq (a generated cases file compiled with coqc) and compared with what the code did.  Oracle on
     the Go observations alone: when Connect and the writer succeed the server decodes every
     record with the common fields intact; unrelated pairs are refused before data is sent; the
     advertised dictionary limit is returned and in force.
C19: proofs coq/Props/C19.v over coq/Net/Pipeline.v (interleaving transition system of N exporters,
     FIFO of chunks, receiver, consumer, acks).  Tie: REAL exporters wired to the REAL receiver over
     localhost gRPC (go test -overlay in otelcol/internal/stefexporter) with a recording consumer and
     concurrent ConsumeMetrics calls, both compression settings; the observed batches / frames are
     replayed as a schedule of the model inside Coq and the terminal states compared.  Oracle on
     the Go observations alone: multiset delivered == multiset accepted (content hashes), batches of
     one caller in order, batches contiguous (mutex), quiescence reached, every record acknowledged,
     sentPendingAck empty."""
import collections, hashlib, json, math, os, re, subprocess, sys, time
sys.path.insert(0, os.path.dirname(os.path.abspath(__file__)))
sys.path.insert(0, os.path.join(os.path.dirname(os.path.abspath(__file__)), 'gen'))
import vlib, streamlib, genpair, gen_schemas
from vlib import SplitMix
from streamlib import strip_mask

MY_V = {'C14': ['Net/Handshake.v', 'Net/HandshakeFacts.v'], 'C19': ['Net/Pipeline.v', 'Net/PipelineFacts.v']}
OVERLAY = os.path.join(vlib.VERIF, 'harness', 'overlay')
INTEGRATION = os.path.join(vlib.VERIF, 'integration', 'grpc.json')


# ------------------------------------------------------------------------------ builds
def ensure_vo(prop, force=False):
    """compile this property's model/fact files (in order) when a .vo is missing, older than its
    source, or older than any .vo of the listed development (they import the stream model)."""
    errors = []
    vlib.regen()
    vlib.coq_build()
    with vlib.Lock('coq'):
        dep = 0.0
        if prop == 'C14':
            for f in vlib.coq_project_files():
                if f.startswith('Props/') or f.startswith('Net/'):
                    continue
                vo = os.path.join(vlib.COQ, f[:-2] + '.vo')
                if os.path.exists(vo):
                    dep = max(dep, os.path.getmtime(vo))
        for f in MY_V[prop]:
            src = os.path.join(vlib.COQ, f)
            vo = src[:-2] + '.vo'
            stale = force or (not os.path.exists(vo)) or os.path.getmtime(vo) < os.path.getmtime(src) or os.path.getmtime(vo) < dep
            if stale:
                rc, out = vlib.sh(f'timeout 900 coqc -R . Stef {f}', cwd=vlib.COQ, timeout=960)
                if rc != 0:
                    errors.append(f'{f} does not check: ' + (out.strip().splitlines()[-1] if out.strip() else 'coqc failed'))
                    open(os.path.join(vlib.BUILD, 'coq_grpc.log'), 'a').write(out)
                    break
            if os.path.exists(vo):
                dep = max(dep, os.path.getmtime(vo))
    return errors


def coq_eval(name, text, timeout=900):
    """compile a generated cases file and return the printed values (lists of lists of N)"""
    path = os.path.join(vlib.BUILD, name + '.v')
    open(path, 'w').write(text)
    with vlib.Lock('coq'):
        rc, out = vlib.sh(f'timeout {timeout} coqc -R {vlib.COQ} Stef {path}', cwd=vlib.BUILD, timeout=timeout + 60)
    for ext in ('.vo', '.vok', '.vos', '.glob'):
        try:
            os.remove(os.path.join(vlib.BUILD, name + ext))
        except OSError:
            pass
    if rc != 0:
        return None, out
    vals = []
    for m in re.finditer(r'=\s*(\[.*?\])\s*:\s*list \(list N\)', out, re.S):
        vals.append(json.loads(re.sub(r'\s+', ' ', m.group(1)).replace(';', ',')))
    return vals, out


def load_known(prop):
    """entries of known_findings.json; until integration the entries proposed in integration/grpc.json"""
    ks = [k for k in vlib.load_known() if k.get('property') == prop]
    ids = {k['id'] for k in ks}
    if os.path.exists(INTEGRATION):
        try:
            for k in json.load(open(INTEGRATION)).get('known_findings_entries', []):
                if k.get('property') == prop and k['id'] not in ids:
                    ks.append(k)
        except ValueError:
            pass
    return ks


class CappedVerdict(vlib.Verdict):
    CAP = 12
    def __init__(self, prop):
        super().__init__(prop)
        self.suppressed = 0
        self.kinds = collections.Counter()
    def violation(self, replay_obj, summary, no_input=False):
        kind = summary.split(':')[0][:40]
        self.kinds[kind] += 1
        if self.kinds[kind] > 3 or len(self.violations) >= self.CAP:
            self.suppressed += 1
            return
        super().violation(replay_obj, summary, no_input)


# ------------------------------------------------------------------------------ C14: dumps
def parse_dump(s):
    pos = 0

    def val():
        nonlocal pos
        c = s[pos]
        if c == '{':
            pos += 1
            items = []
            if s[pos] == '}':
                pos += 1
                return ('struct', items)
            while True:
                items.append(val())
                if s[pos] == ',':
                    pos += 1
                    continue
                assert s[pos] == '}', (s, pos)
                pos += 1
                return ('struct', items)
        if c == '<':
            j = pos + 1
            while s[j].isdigit():
                j += 1
            tag = int(s[pos + 1:j])
            pos = j
            v = None
            if s[pos] == ':':
                pos += 1
                v = val()
            assert s[pos] == '>'
            pos += 1
            return ('oneof', tag, v)
        if c == '[':
            pos += 1
            items = []
            if s[pos] == ']':
                pos += 1
                return ('array', items)
            while True:
                items.append(val())
                if s[pos] == ',':
                    pos += 1
                    continue
                assert s[pos] == ']'
                pos += 1
                return ('array', items)
        if c == '(':
            pos += 1
            items = []
            if s[pos] == ')':
                pos += 1
                return ('map', items)
            while True:
                k = val()
                assert s[pos] == '='
                pos += 1
                v = val()
                items.append((k, v))
                if s[pos] == ';':
                    pos += 1
                    continue
                assert s[pos] == ')'
                pos += 1
                return ('map', items)
        if c == '~':
            pos += 1
            return ('absent',)
        if s.startswith('nil', pos):
            pos += 3
            return ('nil',)
        j = pos + 1
        while j < len(s) and s[j] not in ',}>];)=':
            j += 1
        tok = s[pos:j]
        pos = j
        return ('prim', tok)
    v = val()
    assert pos == len(s), s[pos:pos + 20]
    return v


def unparse(t):
    k = t[0]
    if k == 'prim':
        return t[1]
    if k == 'absent':
        return '~'
    if k == 'nil':
        return 'nil'
    if k == 'struct':
        return '{' + ','.join(unparse(x) for x in t[1]) + '}'
    if k == 'oneof':
        return '<0>' if t[1] == 0 else f'<{t[1]}:{unparse(t[2])}>'
    if k == 'array':
        return '[' + ','.join(unparse(x) for x in t[1]) + ']'
    return '(' + ';'.join(unparse(a) + '=' + unparse(b) for a, b in t[1]) + ')'


ZERO = {'PBool': 'b0', 'PInt64': 'i0', 'PUint64': 'u0', 'PFloat64': 'f0000000000000000', 'PString': 's', 'PBytes': 's'}


def zero(sch, ty):
    k = ty['k']
    if k == 'prim':
        return ('prim', ZERO[ty['p']])
    if k == 'array':
        return ('array', [])
    if k == 'multimap':
        return ('map', [])
    st = sch['structs'][ty['id']]
    if st['oneof']:
        return ('oneof', 0, None)
    return ('struct', [('absent',) if f['optional'] else zero(sch, f['type']) for f in st['fields']])


def convert(t, src, sty, dst, dty):
    """re-express a dump of type sty (schema src) in type dty (schema dst): fields / alternatives are
    matched by position (append-only evolution); missing ones take defaults, extra ones are dropped.
    This is the 'every field common to both schemas intact' of the property."""
    k = sty['k']
    if t[0] in ('absent', 'nil'):
        return t
    if k == 'prim':
        return t
    if k == 'array':
        return ('array', [convert(x, src, sty['elem'], dst, dty['elem']) for x in t[1]])
    if k == 'multimap':
        ms, md = src['multimaps'][sty['id']], dst['multimaps'][dty['id']]
        return ('map', [(convert(a, src, ms['key'], dst, md['key']), convert(b, src, ms['value'], dst, md['value'])) for a, b in t[1]])
    ss, sd = src['structs'][sty['id']], dst['structs'][dty['id']]
    if ss['oneof']:
        tag = t[1]
        if tag == 0 or tag > len(sd['fields']):
            return ('oneof', 0, None)
        return ('oneof', tag, convert(t[2], src, ss['fields'][tag - 1]['type'], dst, sd['fields'][tag - 1]['type']))
    out = []
    for i, fd in enumerate(sd['fields']):
        if i < len(ss['fields']) and i < len(t[1]):
            out.append(convert(t[1][i], src, ss['fields'][i]['type'], dst, fd['type']))
        else:
            out.append(('absent',) if fd['optional'] else zero(dst, fd['type']))
    return ('struct', out)


def by_name(sch, name):
    return [i for i, x in enumerate(sch['structs']) if x['name'] == name][0]


def conv_dump(d, src, dst, root):
    return unparse(convert(parse_dump(d), src, {'k': 'struct', 'id': by_name(src, root)}, dst, {'k': 'struct', 'id': by_name(dst, root)}))


# ------------------------------------------------------------------------------ C14: schema pairs
PRIMS = ['bool', 'int64', 'uint64', 'float64', 'string', 'bytes']


class Base:
    """a random schema with, per struct / oneof, a base field list and fields that may be appended;
    variants select how many appended fields each struct gets (append-only evolutions of the base)"""
    def __init__(self, rng, tag):
        self.tag = tag
        nstruct = 2 + rng.below(3)
        self.structs = [dict(name=f'S{i}', fields=[], a=0, oneof=False, dict=(i > 0 and rng.chance(1, 4))) for i in range(nstruct)]
        self.oneofs = [dict(name=f'O{i}', fields=[], a=0, oneof=True, dict=False) for i in range(1 + rng.below(2))]
        self.maps = [dict(name=f'M{i}') for i in range(1 + rng.below(2))]
        self.new_structs = [dict(name=f'N{i}', fields=[], a=0, oneof=False, dict=False) for i in range(rng.below(3))]
        structs, oneofs, maps, new_structs = self.structs, self.oneofs, self.maps, self.new_structs

        def prim(allow_dict=True):
            p = rng.choice(PRIMS)
            if allow_dict and p in ('string', 'bytes') and rng.chance(1, 3):
                return f'{p} dict(D{p[0].upper()}{rng.below(2)})'     # one dictionary per primitive type (C10 finding otherwise)
            return p

        def ftype(owner_idx, is_b_only, leaf=False):
            k = rng.below(9)
            if k < 4 or leaf:
                return prim()
            if k == 4:
                e = rng.choice(PRIMS + [s['name'] for s in structs[owner_idx + 1:]] + [o['name'] for o in oneofs])
                return f'[]{e}'
            if k == 5:
                return rng.choice(maps)['name']
            if k == 6:
                return rng.choice(oneofs)['name']
            if k == 7 and is_b_only and new_structs:
                return rng.choice(new_structs)['name']
            later = structs[owner_idx + 1:]
            if later:
                return rng.choice(later)['name']
            return prim()

        for i, s in enumerate(structs):
            na = 1 + rng.below(4)
            nb = 1 + rng.below(3) if rng.chance(3, 4) else 0
            for j in range(na + nb):
                t = ftype(i, j >= na, leaf=s['dict'])
                dict_struct = any(x['name'] == t and x['dict'] for x in structs)
                opt = rng.chance(1, 4) and not t.startswith('[') and not dict_struct   # optional dictionary structs do not compile (C10 finding)
                s['fields'].append((f'F{j}', t, opt))
            s['a'] = na
        # the root reaches every other struct of the base through its first fields
        root = structs[0]
        extra = [(f'R{i}', s['name'], False) for i, s in enumerate(structs[1:])]
        root['fields'] = extra + root['fields']
        root['a'] += len(extra)
        for o in oneofs:
            na = 1 + rng.below(3)
            nb = rng.below(3)
            for j in range(na + nb):
                o['fields'].append((f'A{j}', ftype(len(structs), j >= na), False))
            o['a'] = na
        for n in new_structs:
            for j in range(1 + rng.below(3)):
                n['fields'].append((f'F{j}', prim(), rng.chance(1, 4)))
        for m in maps:
            m['key'] = prim()
            m['value'] = ftype(len(structs), False)

    def render(self, extra):
        """extra: name -> number of appended fields included ('*' = all)"""
        L = [f'package verif.{self.tag}', '']
        with_new = False
        body = []
        for s in self.structs + self.oneofs:
            n = extra.get(s['name'], extra.get('*', 0))
            n = len(s['fields']) - s['a'] if n == 'all' else min(n, len(s['fields']) - s['a'])
            fields = s['fields'][:s['a'] + n]
            with_new = with_new or any(t.lstrip('[]').startswith('N') for _, t, _ in fields[s['a']:])
            mods = []
            if s.get('dict'):
                mods.append(f'dict({s["name"]})')
            if s['name'] == 'S0':
                mods.append('root')
            body.append(f'{"oneof" if s["oneof"] else "struct"} {s["name"]} {" ".join(mods)} {{'.replace('  ', ' '))
            for (nm, t, opt) in fields:
                body.append(f'  {nm} {t}{" optional" if opt and not s["oneof"] else ""}')
            body.append('}')
        if with_new:
            for s in self.new_structs:
                body.append(f'struct {s["name"]} {{')
                for (nm, t, opt) in s['fields']:
                    body.append(f'  {nm} {t}{" optional" if opt else ""}')
                body.append('}')
        for m in self.maps:
            body.append(f'multimap {m["name"]} {{\n  key {m["key"]}\n  value {m["value"]}\n}}')
        return '\n'.join(L + body) + '\n'

    def growable(self):
        return [s['name'] for s in self.structs if len(s['fields']) > s['a']]


FIXED = [
    # (name, family, A, B)
    ('d9-root-field', 'evolution',
     'package p.d9\nstruct R root {\n A uint64\n}\n',
     'package p.d9\nstruct R root {\n A uint64\n B string\n}\n'),
    ('d9b-diverged-equal-totals', 'diverged',
     'package p.dv\nstruct R root {\n A X\n B Y\n}\nstruct X {\n P uint64\n Q uint64\n}\nstruct Y {\n S string\n}\n',
     'package p.dv\nstruct R root {\n A X\n B Y\n}\nstruct X {\n P uint64\n}\nstruct Y {\n S string\n T string\n}\n'),
    ('order-shift', 'evolution',
     'package p.sh\nstruct R root {\n A X\n B Y\n C Z\n}\nstruct X {\n P uint64\n}\nstruct Y {\n S string\n T int64\n U bool\n}\nstruct Z {\n K bytes\n}\n',
     'package p.sh\nstruct R root {\n A X\n B Y\n C Z\n}\nstruct X {\n P uint64\n Q Z\n}\nstruct Y {\n S string\n T int64\n U bool\n}\nstruct Z {\n K bytes\n}\n'),
    ('diverged-different-totals', 'diverged',
     'package p.dn\nstruct R root {\n A X\n B Y\n}\nstruct X {\n P uint64\n Q uint64\n Q2 int64\n}\nstruct Y {\n S string\n}\n',
     'package p.dn\nstruct R root {\n A X\n B Y\n}\nstruct X {\n P uint64\n}\nstruct Y {\n S string\n T string\n}\n'),
    ('unrelated-lengths', 'unrelated',
     'package p.ul\nstruct R root {\n A X\n}\nstruct X {\n P uint64\n Q uint64\n R2 uint64\n S uint64\n T uint64\n}\n',
     'package p.ul\nstruct R root {\n A string\n B string\n C string\n D string\n E string\n F string\n G string\n}\n'),
    ('unrelated-server-larger', 'unrelated',
     'package p.us\nstruct R root {\n A uint64\n}\n',
     'package p.us\nstruct R root {\n X string\n Y float64\n}\n'),
    ('same-counts-other-types', 'unrelated',
     'package p.sc\nstruct R root {\n A uint64\n}\n',
     'package p.sc\nstruct R root {\n A string\n}\n'),
]
DICT_PAIR = ('dict-limit', 'evolution',
             'package p.dl\nstruct R root {\n K string dict(D)\n V uint64\n}\n',
             'package p.dl\nstruct R root {\n K string dict(D)\n V uint64\n W int64\n}\n')


def gen_pairs(rng, tier):
    pairs = list(FIXED) + [DICT_PAIR]
    n = 5 if tier == 'quick' else 40
    for i in range(n):
        b = Base(rng, f'ev{i}')
        pairs.append((f'evolution-{i}', 'evolution', b.render({}), b.render({'*': 'all'})))
        g = b.growable()
        if len(g) >= 2 and (i % 2 == 0 or tier != 'quick'):
            x, y = g[0], g[1] if g[0] != 'S0' or len(g) < 3 else g[2]
            k = 1 + rng.below(2)
            pairs.append((f'diverged-{i}', 'diverged', b.render({x: 1}), b.render({y: 1 if rng.chance(2, 3) else k + 1})))
    for i in range(1 if tier == 'quick' else 8):
        u1, u2 = Base(rng, f'un{i}a'), Base(rng, f'un{i}b')
        pairs.append((f'unrelated-{i}', 'unrelated', u1.render({}), u2.render({'*': 'all'})))
    return pairs


def relation(cs, ss):
    if cs == ss:
        return 'same_counts'
    if len(cs) == len(ss) and sum(cs) == sum(ss):
        return 'equal_totals'
    if len(ss) > len(cs) or (len(ss) == len(cs) and sum(ss) > sum(cs)):
        return 'server_ahead_by_counts'
    return 'server_behind_by_counts'


def dict_history(n, start=0):
    ops = []
    for i in range(n):
        s = ('key-%06d-x' % (start + i)).encode().hex()
        ops += [{'op': 'set', 'v': [s, str(i)]}, {'op': 'w'}]
    ops.append({'op': 'f'})
    return ops


def go_class(o):
    if o.get('connect_err'):
        return 0
    if o.get('writer_err'):
        return 1
    if not o.get('server') or o['server'].get('openerr') or not o['server'].get('started'):
        return 2
    return 3


def model_expect(code):
    """decode Handshake.outcome_code"""
    it = iter(code)
    cls = next(it)
    d = dict(cls=cls)
    if cls == 0:
        return d

    def counts():
        if next(it) == 0:
            return None
        n = next(it)
        return [next(it) for _ in range(n)]
    if cls == 3:
        d['same_layout'] = next(it) == 1
    d['schema'] = counts()
    d['descr'] = next(it) == 1
    d['maxdict'] = next(it)
    if cls >= 2:
        d['wire_descr'] = counts()
    return d


def run_c14(rng, tier, verdict, counters, samples, seed, info):
    stats = collections.Counter()
    extra = {}
    # ---- constant tie
    src = open(os.path.join(vlib.REPO, 'go/pkg/writeropts.go')).read()
    m = re.search(r'const\s+DefaultMaxTotalDictSize\s*=\s*([0-9 <()+*-]+)', src)
    msrc = open(os.path.join(vlib.COQ, 'Net/Handshake.v')).read()
    mm = re.search(r'Definition default_max_total_dict_size : N := (\d+)\.', msrc)
    code_default = eval(m.group(1), {'__builtins__': {}}) if m else None
    if not m or not mm or code_default != int(mm.group(1)):
        verdict.violation(dict(broken='constant tie: DefaultMaxTotalDictSize', code=m.group(1) if m else None, model=mm.group(1) if mm else None),
                          'constant: the default dictionary limit of the model differs from go/pkg/writeropts.go (or cannot be read)', no_input=True)
    extra['default_max_total_dict_size'] = code_default
    known = {k['id']: k for k in load_known('C14') if k.get('status') == 'known'}
    fixed = [k for k in load_known('C14') if k.get('status') == 'fixed']

    pairs = gen_pairs(rng, tier)
    nh = 2 if tier == 'quick' else 5
    built = []
    for name, family, ta, tb in pairs:
        r = genpair.build(ta, tb)
        if not r['ok']:
            if r['stage'] in ('stefc-run', 'own-parser', 'go-build') and name[:9] in ('evolution', 'diverged-', 'unrelated') and name[-1].isdigit():
                counters['random_pair_rejected_at_' + r['stage']] += 1      # which schemas compile is property C10
                continue
            verdict.violation(dict(pair=name, schema_a=ta, schema_b=tb, stage=r['stage'], log=r['log'][-3000:],
                                   broken='pair harness does not build against the working tree'),
                              f'build: pair {name} does not get through {r["stage"]}', no_input=True)
            continue
        built.append((name, family, ta, tb, r))
        stats['pairs_' + family] += 1
    if not built:
        return 0, 0, stats, extra

    # ---- cases
    allcases = []       # (pair index, case dict, meta)
    for pi, (name, family, ta, tb, r) in enumerate(built):
        sa, sb = r['sch_a'], r['sch_b']
        root = sa['roots'][0]
        sch = {'a': sa, 'b': sb}
        if family == 'evolution':
            dirs = [('a', 'a', 'identical'), ('b', 'b', 'identical'), ('a', 'b', 'server_ahead'), ('b', 'a', 'client_ahead'), ('b', 'a', 'client_ahead_probe')]
        else:
            dirs = [('a', 'b', family), ('b', 'a', family)]
        for cl, sv, kind in dirs:
            for j in range(nh):
                if name == 'dict-limit':
                    # crafted: 40 distinct dictionary strings, a small advertised limit / no limit
                    md = [200, 0, 90, 1000, 200][j % 5]
                    opts = {'compression': j % 2, 'maxframe': 0, 'maxdict': 12345, 'flags': 0, 'descriptor': False, 'userdata': {}}
                    ops = dict_history(40, start=100 * j)
                    if cl == 'b':
                        for op in ops:
                            if op['op'] == 'set':
                                op['v'].append(str(-j))
                else:
                    md = rng.choice([0, 0, 64, 500, 4000, 1 << 20, 1 << 40])
                    opts = streamlib.gen_opts(rng)
                    ops = streamlib.gen_history(sch[cl], root, rng, 1 + rng.below(8))
                case = dict(id=f'{name}:{cl}{sv}:{kind}:{j}', client=cl, server=sv, root=root, maxdict=md, opts=opts, ops=ops,
                            override='server' if kind == 'client_ahead_probe' else '')
                allcases.append((pi, case, dict(kind=kind, pair=name, family=family, dict_case=(name == 'dict-limit'))))

    # ---- the model's decision for every (pair, direction, limit), evaluated inside Coq
    L = ['From Coq Require Import List NArith Bool.', 'From Stef Require Import Schema Reader Handshake.', 'Import ListNotations.', 'Open Scope N_scope.',
         'Definition b2n (b : bool) : N := if b then 1 else 0.', '']
    keys = []
    for pi, (name, family, ta, tb, r) in enumerate(built):
        for side, sch in (('a', r['sch_a']), ('b', r['sch_b'])):
            L.append(gen_schemas.coq_schema(f'p{pi}{side}', sch))
        seen = set()
        for (p, c, meta) in allcases:
            if p != pi:
                continue
            k = (pi, c['client'], c['server'], c['maxdict'])
            if k in seen:
                continue
            seen.add(k)
            keys.append(k)
            rid = by_name(r['sch_a'], c['root'])
            cl, sv = f'p{pi}{c["client"]}', f'p{pi}{c["server"]}'
            L.append(f'Eval vm_compute in [own_counts {cl} {rid}; own_counts {sv} {rid}; '
                     f'[b2n (evolves {cl} {sv}); b2n (evolves {sv} {cl}); b2n (schema_closed {cl}); b2n (schema_closed {sv}); b2n (build_ok {cl} {rid}); b2n (build_ok {sv} {rid})]; '
                     f'outcome_code (handshake VCurrent {cl} {rid} {sv} {rid} {c["maxdict"]}); '
                     f'outcome_code (handshake VPinned {cl} {rid} {sv} {rid} {c["maxdict"]})].')
    vals, log = coq_eval('c14_cases', '\n'.join(L) + '\n')
    if vals is None or len(vals) != len(keys):
        verdict.violation(dict(broken='the generated cases file does not evaluate', log=(log or '')[-3000:], got=None if vals is None else len(vals), want=len(keys)),
                          'model: coqc failed on the generated cases file', no_input=True)
        return len(allcases), 0, stats, extra
    model = dict(zip(keys, vals))
    extra['model_evaluations'] = len(keys)

    # the options the model prescribes travel with the case: the harness also writes the records with
    # exactly these options into memory and reads them with the server-side reader (no handshake, no
    # transport), which tells a wrong handshake from a wrong codec (C01 / C04)
    for (pi, c, meta) in allcases:
        me = model_expect(model[(pi, c['client'], c['server'], c['maxdict'])][3])
        if meta['kind'] == 'client_ahead_probe':
            c['local'] = dict(schema=model[(pi, c['client'], c['server'], c['maxdict'])][1], descr=True)
        elif me['cls'] >= 1:
            c['local'] = dict(schema=me['schema'], descr=me['descr'])

    # ---- run the real code
    outs = {}
    for pi, (name, family, ta, tb, r) in enumerate(built):
        cs = [c for (p, c, _) in allcases if p == pi]
        inp = '\n'.join(json.dumps(c) for c in cs) + '\n'
        try:
            p = subprocess.run([r['bin'], r['sjson_a'], r['sjson_b']], input=inp.encode(), stdout=subprocess.PIPE, stderr=subprocess.PIPE, timeout=600)
            lines = [json.loads(l) for l in p.stdout.decode().split('\n') if l.strip()]
            err = p.stderr.decode()[-2000:]
        except subprocess.TimeoutExpired:
            lines, err = [], 'timeout'
        if len(lines) != len(cs):
            verdict.violation(dict(pair=name, schema_a=ta, schema_b=tb, got=len(lines), want=len(cs), stderr=err,
                                   first_unanswered=cs[len(lines)] if len(lines) < len(cs) else None,
                                   broken='pair harness crashed or produced a short output', how_to_run=f'{r["bin"]} {r["sjson_a"]} {r["sjson_b"]} < cases.jsonl'),
                              f'harness: pair {name} crashed after {len(lines)} of {len(cs)} cases: {err[-200:]}', no_input=len(lines) >= len(cs))
        for c, o in zip(cs, lines):
            outs[c['id']] = o

    how = 'tools/genpair.py <a.stef> <b.stef>; echo <case json> | build/pair_<key> build/pair_<key>.a.json build/pair_<key>.b.json ; model: outcome_code (handshake VCurrent ...) in build/c14_cases.v'
    distinct = set()
    hyp_ok = 0
    for (pi, c, meta) in allcases:
        name, family, ta, tb, r = built[pi]
        o = outs.get(c['id'])
        if o is None:
            continue
        kind = meta['kind']
        stats['cases_' + kind] += 1
        cs_, ss_ = o['client_ws'], o['server_ws']
        rel = relation(cs_, ss_)
        stats['relation_' + rel] += 1
        mv = model[(pi, c['client'], c['server'], c['maxdict'])]
        flags = dict(zip(('evolves_cs', 'evolves_sc', 'closed_c', 'closed_s', 'ok_c', 'ok_s'), mv[2]))
        me = model_expect(mv[3])
        mp = model_expect(mv[4])
        gc = go_class(o)
        sch_c, sch_s = (r['sch_a'] if c['client'] == 'a' else r['sch_b']), (r['sch_a'] if c['server'] == 'a' else r['sch_b'])
        base = dict(seed=seed, case=dict(c, ops=c['ops'][:40]), pair=name, kind=kind, schema_a=ta, schema_b=tb, client_ws=cs_, server_ws=ss_,
                    observed={k: (v if k != 'written' else (v or [])[:4]) for k, v in o.items()}, model_current=mv[3], model_pinned=mv[4], how_to_run=how)
        if o.get('panic') or (o.get('server') or {}).get('panic') or o.get('note'):
            counters['panic_or_hang'] += 1
            verdict.violation(base, f'panic: {c["id"]}: panic / hang in the handshake harness: {(o.get("panic") or (o.get("server") or {}).get("panic") or o.get("note"))[:120]}')
            continue
        probe = kind == 'client_ahead_probe'
        distinct.add((name, c['client'], c['server'], c['maxdict'], gc, json.dumps(c['ops'])[:200]))
        # ---------------- correspondence: the model's decision vs the code's
        diffs = []
        if not probe:
            if mv[0] != cs_ or mv[1] != ss_:
                diffs.append(('wire schema (own_counts vs generated <Root>WireSchema)', [mv[0], mv[1]], [cs_, ss_]))
            if me['cls'] != gc:
                diffs.append(('outcome class (0 connect refused, 1 writer refused, 2 server refused, 3 stream)', me['cls'], gc))
            if gc >= 1 and me['cls'] >= 1:
                go_opts = (o['opts']['schema'], o['opts']['descr'], o['opts']['maxdict'])
                if go_opts != (me['schema'], me['descr'], me['maxdict']):
                    diffs.append(('options returned by Connect (schema, IncludeDescriptor, MaxTotalDictSize)', (me['schema'], me['descr'], me['maxdict']), go_opts))
            if gc >= 2 and me['cls'] >= 2:
                wd = o['server'].get('ws') or None
                wd = [int(x) for x in wd.split(',')] if wd else None
                if wd != me['wire_descr']:
                    diffs.append(('descriptor on the wire', me['wire_descr'], wd))
            if mp['cls'] != me['cls']:
                stats['pinned_model_differs'] += 1

        def report_correspondence():
            # the property holds on this observation (or fails in a known way) but the model decides otherwise
            counters['correspondence'] += 1
            verdict.violation(dict(base, broken='correspondence C14: coq/Net/Handshake.v (VCurrent) vs go/grpc + generated code', first_difference=diffs[0], differences=diffs[1:]),
                              f'correspondence: {c["id"]}: model and code disagree on {diffs[0][0]}: model {diffs[0][1]} code {diffs[0][2]}',
                              no_input=True)
        # ---------------- the property, on the code's observations alone
        finding = None
        if o['opts'] is not None and o['opts']['maxdict'] != c['maxdict']:
            finding = ('dict-limit-not-returned', o['opts']['maxdict'], c['maxdict'])
        streams = gc == 3
        related = kind in ('identical', 'server_ahead', 'client_ahead', 'client_ahead_probe')
        if finding is None and related:
            if gc in (0, 1) and kind != 'client_ahead':
                finding = ('related-schemas-refused', o.get('connect_err') or o.get('writer_err'))
            elif gc in (0, 1):
                stats['client_ahead_refused_before_data'] += 1      # allowed by the property (nothing sent)
            elif gc == 2:
                finding = ('server-refuses-stream-after-successful-handshake', o['server'].get('openerr'))
            else:
                exp = [conv_dump(w, sch_c, sch_s, c['root']) for w in (o.get('written') or [])]
                got = [strip_mask(x) for x in (o['server'].get('recs') or [])]
                if o.get('write_err'):
                    finding = ('write-error', o['write_err'][:200])
                elif got != exp:
                    k = next((i for i, (a, b) in enumerate(zip(got, exp)) if a != b), min(len(got), len(exp)))
                    finding = ('server-decodes-other-records', f'record {k} of {len(exp)} (server got {len(got)})', (exp[k:k + 1] or [None])[0], (got[k:k + 1] or [None])[0])
                elif o['server'].get('err') != 'eof':
                    finding = ('server-read-error', o['server'].get('err'))
                lo = o.get('local')
                if finding and lo and not diffs and not lo.get('panic') and \
                        [strip_mask(x) for x in (lo.get('recs') or [])] == got and (lo.get('err') or '') == (o['server'].get('err') or '') and \
                        (lo.get('write_err') or '') == (o.get('write_err') or ''):
                    # the same records written with the model's options and read without handshake or
                    # transport come out the same way: the codec's defect (C01 round trip / C04 evolution)
                    stats['codec_defect_outside_C14'] += 1
                    if len(extra.setdefault('delegated_to_C01_C04', [])) < 5:
                        extra['delegated_to_C01_C04'].append(dict(case=c['id'], finding=finding[0], detail=str(finding[1]), expected=str(finding[2:3])[:300], got=str(finding[3:4])[:300],
                                                                    schema_a=ta, schema_b=tb))
                    finding = None
                    counters['delegated_' + kind] += 1
                    continue
        elif finding is None:
            # diverged / unrelated: must not get as far as sending data the server cannot decode
            if rel == 'same_counts':
                stats['indistinguishable_on_the_wire'] += 1         # inherent limit (C14_inherent_limit)
            elif gc >= 2:
                finding = ('unrelated-schemas-not-refused', 'server refused the stream' if gc == 2 else 'server decoded with its own layout',
                           rel)
        # dictionary limit in force (crafted pair)
        if finding is None and meta['dict_case'] and streams:
            fl = (o['server'].get('flags') or [])[1:]
            nflag = sum(1 for f in fl if f & 1)
            per = 28                                     # len("key-000000-x") + 16 (stringdict.go accounting)
            limit = c['maxdict'] or code_default
            expect = 40 // math.ceil(limit / per)
            stats['dict_resets_seen'] += nflag
            if not (max(expect - 1, 1 if expect >= 2 else 0) <= nflag <= expect):
                finding = ('dict-limit-not-in-force', f'{nflag} frames announce a dictionary reset, expected {expect} (or one less) for limit {limit}')
        if finding is None and diffs:
            report_correspondence()
            continue
        if finding is None:
            counters['clean_' + kind] += 1
            if not probe and flags['evolves_cs'] and flags['closed_c'] and flags['ok_c'] and gc == 3 and kind in ('identical', 'server_ahead'):
                hyp_ok += 1                               # an instance of theorem C14_sound_partial, confirmed on the code
            continue
        # ---------------- classify
        rep = dict(base, finding=list(map(str, finding)))
        matched = None
        for kid, k in known.items():
            mt = k.get('matcher', {})
            if mt.get('finding') == finding[0] and kind in mt.get('kinds', []):
                if mt.get('opts_schema') == 'client' and not (o['opts'] and o['opts']['schema'] == cs_):
                    continue
                if mt.get('relation') and rel not in mt['relation']:
                    continue
                matched = kid
                break
        if matched:
            verdict.known_finding(matched, known[matched].get('line') or known[matched]['what_fails'])
            counters['known:' + matched] += 1
            if diffs:
                report_correspondence()
            continue
        if diffs:
            rep['model_disagrees_too'] = [diffs[0][0], diffs[0][1], diffs[0][2]]
        counters['oracle:' + finding[0]] += 1
        was_fixed = [k['id'] for k in fixed if k.get('matcher', {}).get('finding') == finding[0] and rel in k.get('matcher', {}).get('relation', [rel])]
        verdict.violation(dict(rep, regression_of=was_fixed), f'{finding[0]}: {c["id"]}: {finding[0]} {str(finding[1])[:160]}' + (f' (regression of {was_fixed})' if was_fixed else ''))
    extra['instances_of_C14_sound_partial_confirmed'] = hyp_ok
    for want in ('identical', 'server_ahead', 'client_ahead', 'diverged', 'unrelated'):
        for (pi, c, meta) in allcases:
            if meta['kind'] == want and c['id'] in outs:
                o = outs[c['id']]
                samples.append(dict(case=c['id'], kind=want, client_ws=o['client_ws'], server_ws=o['server_ws'], maxdict=c['maxdict'],
                                    connect_err=o['connect_err'][:120], opts=o['opts'], writer_err=o['writer_err'][:120],
                                    server=None if not o.get('server') else dict(openerr=o['server']['openerr'][:120], err=o['server']['err'], recs=len(o['server'].get('recs') or []), ws=o['server'].get('ws')),
                                    written=len(o.get('written') or []), model_current=model[(pi, c['client'], c['server'], c['maxdict'])][3]))
                break
    genpair.cleanup()
    return len(allcases), len(distinct), stats, extra


# ------------------------------------------------------------------------------ C19
def build_go_test(name, moddir, pkg, overlay_target, overlay_src, race=False):
    ov = os.path.join(vlib.BUILD, f'overlay_{name}.json')
    json.dump({'Replace': {os.path.join(vlib.REPO, overlay_target): os.path.join(OVERLAY, overlay_src)}}, open(ov, 'w'))
    out_bin = os.path.join(vlib.BUILD, f'go_{name}_verif.test')
    with vlib.Lock('go'):
        rc, out = vlib.sh(f'go test -c -vet=off {"-race " if race else ""}-overlay {ov} -tags verif -o {out_bin} {pkg}',
                          cwd=os.path.join(vlib.REPO, moddir), env=vlib.GOENV, timeout=1500)
    return rc == 0, out, out_bin


def gen_c19(rng, tier):
    cases = []
    scale = 1 if tier == 'quick' else 8
    # the minimal run first (the former failing input of the repaired sentPendingAck defect)
    cases.append(dict(id='corpus-one-batch', exporters=1, compression='', factory=False, workers=1, batches=1, points=[1], sleep_us=[0], seed=1, family='corpus'))
    # a long export call followed by silence: the flusher ticks while the call converts / waits for
    # the writer mutex, nothing is exported afterwards (everything must still be flushed and acknowledged)
    for i in range(1 if tier == 'quick' else 4):
        cases.append(dict(id=f'large-last-{i}', exporters=1, compression=rng.choice(['', 'zstd']), factory=False, workers=1 + (i % 2), batches=2,
                          points=[3 + rng.below(5), 70000 + rng.below(30000)], sleep_us=[0], seed=rng.below(1000), family='large-last'))
    # a consumer that blocks in one call: frames pile up at the receiver and are then consumed in a
    # burst (acknowledgements scheduled a few microseconds apart), then silence
    for i in range(3 if tier == 'quick' else 12):
        cases.append(dict(id=f'backlog-{i}', exporters=1 + (i % 2), compression=rng.choice(['', 'zstd']), factory=False, workers=1, batches=3 + rng.below(3),
                          points=[20 + rng.below(100)], sleep_us=[120000], seed=rng.below(1000), family='backlog',
                          consumer_delay_us=[350000 + rng.below(100000)] + [0] * 20))
    # one long export call (the writer is busy across flusher ticks) while other callers trickle small
    # batches in, then silence: an export that announced itself before it got the writer must still be flushed
    for i in range(1 if tier == 'quick' else 4):
        cases.append(dict(id=f'large-with-trickle-{i}', exporters=1, compression=rng.choice(['', 'zstd']), factory=False, workers=4, batches=1,
                          points=[5], points_by_worker=[[150000 + rng.below(100000)], [5], [4], [3]], batches_by_worker=[1, 40, 40, 40],
                          sleep_us=[5000, 7000, 3000], seed=rng.below(1000), family='large-with-trickle'))
    # ... and the variant in which the other callers make their ONLY call while the long one holds the writer
    # (they wait for the mutex behind the flusher), after which nobody exports any more
    for i in range(1 if tier == 'quick' else 4):
        cases.append(dict(id=f'large-with-late-callers-{i}', exporters=1, compression=rng.choice(['', 'zstd']), factory=False, workers=4, batches=1,
                          points=[5], points_by_worker=[[250000 + rng.below(100000)], [5], [4], [3]], batches_by_worker=[1, 1, 1, 1],
                          sleep_us=[0], late_callers=True, seed=rng.below(1000), family='large-with-late-callers'))
    # two batches of several frames each in a row on one uncompressed stream, then small ones: frames closed
    # by the frame size limit must fit a gRPC message; a chunk cut into several gRPC messages must not disturb
    # the next chunk
    for i in range(1 if tier == 'quick' else 3):
        cases.append(dict(id=f'two-large-{i}', exporters=1, compression=rng.choice(['', '']), factory=False, workers=1 + i % 2, batches=4,
                          points=[150000 + rng.below(40000), 130000 + rng.below(40000), 7, 3], sleep_us=[0], seed=rng.below(1000), family='two-large'))
    # dense-large: the same with data of which nearly every accounted bit is a byte on the wire (integer
    # attributes, random timestamps and values), so that a frame closed by the size limit is as large as the
    # limit lets it be; it must still fit one gRPC message of the receiver's default limit
    for i in range(1 if tier == 'quick' else 3):
        cases.append(dict(id=f'dense-large-{i}', exporters=1, compression='', factory=False, workers=1, batches=3, dense=True,
                          points=[225000 + rng.below(60000), 7, 3], sleep_us=[0], seed=rng.below(1000), family='dense-large'))
    for i in range((40 if tier == 'quick' else 240)):
        fam = ['single', 'concurrent', 'multi', 'spread', 'factory'][i % 5]
        c = dict(id=f'{fam}-{i}', exporters=1, compression=rng.choice(['', 'zstd']), factory=False, workers=1, batches=1 + rng.below(5),
                 points=[1 + rng.below(12) for _ in range(1 + rng.below(3))], sleep_us=[0], seed=rng.below(1000), family=fam)
        if fam in ('concurrent', 'multi', 'spread', 'factory'):
            c['workers'] = 2 + rng.below(4)
        if fam in ('multi', 'factory'):
            c['exporters'] = 2 + rng.below(2)
        if fam == 'spread':
            # calls spread over several flusher periods: several frames per stream
            c['sleep_us'] = [rng.choice([0, 20000, 45000, 70000]) for _ in range(3)]
            c['batches'] = 2 + rng.below(3)
        elif rng.chance(1, 3):
            c['sleep_us'] = [rng.choice([0, 100, 1000, 5000]) for _ in range(2)]
        if fam == 'factory':
            c['factory'] = True
        if rng.chance(1, 6):
            c['points'] = [200 + rng.below(300)]
        cases.append(c)
    return cases


def c19_oracle(c, r):
    """the property on the observations alone; returns None or a finding tuple"""
    if r.get('start_err') or r.get('note'):
        return ('harness-start', r.get('start_err') or r.get('note'))
    errs = [b for b in r['accepted'] if b.get('err')]
    if errs:
        return ('consume-metrics-error', errs[0]['err'][:200])
    acc = [p for b in r['accepted'] for p in b['pts']]
    if len(set(acc)) != len(acc):
        return ('harness-nonunique-points',)
    dele = [p for call in r['calls'] for p in call]
    ca, cd = collections.Counter(acc), collections.Counter(dele)
    if cd - ca:
        dup = [p for p, n in (cd - ca).items()]
        return ('delivered-more-than-once-or-changed', f'{len(dup)} point(s) delivered that were not accepted / were already delivered, e.g. {dup[0]}')
    if ca - cd:
        return ('not-delivered', f'{sum((ca - cd).values())} of {len(acc)} accepted data points never reached the consumer (quiet_ms={r["quiet_ms"]})')
    if r['quiet_ms'] < 0:
        return ('not-quiescent-within-deadline', [dict(last_sent=e['last_sent'], last_acked=e['last_acked']) for e in r['exporters']])
    if any(len(call) == 0 for call in r['calls']):
        return ('empty-consumer-call',)
    owner = {}
    for b in r['accepted']:
        for p in b['pts']:
            owner[p] = (b['e'], b['w'], b['b'])
    pos = {p: i for i, p in enumerate(dele)}
    # one consumer call carries data of one stream only
    for k, call in enumerate(r['calls']):
        if len({owner[p][0] for p in call}) != 1:
            return ('consumer-call-mixes-streams', k)
    # the batches of one caller arrive in call order
    last = {}
    for b in sorted(r['accepted'], key=lambda b: (b['e'], b['w'], b['b'])):
        if not b['pts']:
            continue
        lo, hi = min(pos[p] for p in b['pts']), max(pos[p] for p in b['pts'])
        key = (b['e'], b['w'])
        if key in last and lo < last[key]:
            return ('batches-of-one-caller-out-of-order', key, b['b'])
        last[key] = hi
    # mutex: the records of a batch are contiguous in its stream, frames end at batch ends
    for e in range(c['exporters']):
        seq = [owner[p] for p in dele if owner[p][0] == e]
        seen, prev = set(), None
        for o in seq:
            if o != prev:
                if o in seen:
                    return ('batch-interleaved-with-another-push', e, o)
                seen.add(o)
                prev = o
        off = 0
        sizes = {(b['e'], b['w'], b['b']): len(b['pts']) for b in r['accepted']}
        ends, tot, prev = set(), 0, None
        for o in seq:
            if o != prev:
                tot += sizes[o]
                ends.add(tot)
                prev = o
        for call in r['calls']:
            if owner[call[0]][0] != e:
                continue
            off += len(call)
            # a frame ends where a push ends (Flush runs under the writer mutex), except when the writer
            # itself closes a frame because it reached the frame size limit (4 MiB: many thousands of
            # these data points) in the middle of a large batch
            if off not in ends and len(call) < 5000:
                return ('frame-ends-inside-a-batch', e, off)
    # acknowledgements (exporters whose bookkeeping is visible)
    for e, x in enumerate(r['exporters']):
        if not x['visible']:
            continue
        n = sum(len(b['pts']) for b in r['accepted'] if b['e'] == e)
        if x['records'] != n or x['last_sent'] != n:
            return ('record-count', e, x['records'], x['last_sent'], n)
        if x['last_acked'] != n:
            return ('not-acknowledged', e, x['last_acked'], n)
        if x['pending']:
            return ('acknowledged-batch-still-pending', e, x['pending'])
    return None


def c19_schedule(c, r, e):
    """a schedule of the model for stream e that reproduces the observed batch order and frames"""
    owner = {}
    sizes = {}
    for b in r['accepted']:
        sizes[(b['e'], b['w'], b['b'])] = len(b['pts'])
        for p in b['pts']:
            owner[p] = (b['e'], b['w'], b['b'])
    dele = [p for call in r['calls'] for p in call]
    order, prev = [], None
    for p in dele:
        o = owner[p]
        if o[0] == e and o != prev:
            order.append(o)
            prev = o
    # batches without data points have no trace in the delivery; they are pushed last
    order += [k for k in sizes if k[0] == e and sizes[k] == 0]
    frames = [len(call) for call in r['calls'] if owner[call[0]][0] == e]
    ends, t = [], 0
    for fr in frames:
        t += fr
        ends.append(t)
    sched, tot = [], 0
    for o in order:
        sched.append(f'({e}%nat, APushWrite {sizes[o]} [])')
        sched.append(f'({e}%nat, APushRegister)')
        tot += sizes[o]
        if tot in ends and sizes[o] > 0:
            sched += [f'({e}%nat, {a})' for a in ('AFlush', 'ARecv', 'ASched', 'ATick', 'AOnAck')]
    return sched, frames


def run_c19(rng, tier, verdict, counters, samples, seed, info):
    stats = collections.Counter()
    extra = {}
    race = tier == 'thorough'
    args = ('stefexporter', 'otelcol', './internal/stefexporter', 'otelcol/internal/stefexporter/zz_verif_pipeline_test.go', 'pipeline_test.go')
    ok_go, log_go, gobin = build_go_test(*args, race=race)
    if not ok_go and race:
        counters['race_build_unavailable'] += 1
        ok_go, log_go, gobin = build_go_test(*args)
    if not ok_go:
        verdict.violation(dict(broken='go test -c of otelcol/internal/stefexporter with the overlay harness failed', log=log_go[-3000:]),
                          'build: harness does not build against the working tree', no_input=True)
        return 0, 0, stats, extra
    known = {k['id']: k for k in load_known('C19') if k.get('status') == 'known'}
    cases = gen_c19(rng, tier)
    fin, fout = os.path.join(vlib.BUILD, 'c19_in.jsonl'), os.path.join(vlib.BUILD, 'c19_out.jsonl')
    open(fin, 'w').write('\n'.join(json.dumps(c) for c in cases) + '\n')
    if os.path.exists(fout):
        os.remove(fout)
    rc, out = vlib.sh([gobin, '-test.run', 'TestVerifC19$', '-test.count=1', '-test.timeout=30m'],
                      env=dict(vlib.GOENV, VERIF_C19_IN=fin, VERIF_C19_OUT=fout), cwd=os.path.join(vlib.REPO, 'otelcol'), timeout=2400)
    results = [json.loads(l) for l in open(fout)] if os.path.exists(fout) else []
    for r in results:
        for k in ('calls', 'accepted', 'exporters', 'samples'):
            r[k] = r.get(k) or []
        for x in r['exporters']:
            x['pending'] = x.get('pending') or []
    if rc != 0 or len(results) != len(cases) or 'DATA RACE' in out:
        verdict.violation(dict(broken='go harness run failed' if 'DATA RACE' not in out else 'data race reported by the Go race detector',
                               rc=rc, log=out[-4000:], got=len(results), want=len(cases),
                               first_unanswered=cases[len(results)] if len(results) < len(cases) else None),
                          'harness: crashed, produced a short output, or the race detector fired: ' + out.strip()[-300:].replace('\n', ' | '),
                          no_input='DATA RACE' not in out and len(results) >= len(cases))
        if len(results) != len(cases):
            cases = cases[:len(results)]
    how = ('echo <case json> > build/one.jsonl; cd /repo/otelcol && VERIF_C19_IN=/verif/build/one.jsonl VERIF_C19_OUT=/dev/stdout '
           '/verif/build/go_stefexporter_verif.test -test.run TestVerifC19$   (goroutine schedules vary: repeat)')
    distinct = set()
    clean = []
    for c, r in zip(cases, results):
        stats['runs_' + c['family']] += 1
        stats['compression_' + (c['compression'] or 'none')] += 1
        npts = sum(len(b['pts']) for b in r.get('accepted', []))
        stats['data_points'] += npts
        stats['consumer_calls'] += len(r.get('calls', []))
        if len(r.get('calls', [])) > c['exporters']:
            stats['runs_with_several_frames_per_stream'] += 1
        distinct.add((c['exporters'], c['workers'], c['batches'], tuple(c['points']), c['compression'], c['factory'], tuple(len(x) for x in r.get('calls', []))))
        bad = c19_oracle(c, r)
        if bad:
            rep = dict(seed=seed, case=c, finding=list(map(str, bad)), how_to_run=how,
                       observed=dict(exporters=r.get('exporters'), quiet_ms=r.get('quiet_ms'), calls=[len(x) for x in r.get('calls', [])],
                                     accepted=[(b['e'], b['w'], b['b'], len(b['pts']), b.get('err', '')) for b in r.get('accepted', [])][:40],
                                     samples=r.get('samples')))
            matched = None
            for kid, k in known.items():
                if k.get('matcher', {}).get('finding') == bad[0]:
                    matched = kid
            if matched:
                verdict.known_finding(matched, known[matched].get('line') or known[matched]['what_fails'])
                counters['known:' + matched] += 1
                continue
            counters['oracle:' + bad[0]] += 1
            verdict.violation(rep, f'{bad[0]}: {c["id"]}: {" ".join(map(str, bad[1:]))[:200]}')
            continue
        counters['clean_' + c['family']] += 1
        # the replay in the model needs frames that end at batch ends (the schedule builder does not
        # reconstruct the writer's own frame cuts inside a batch) and moderate sizes (nat numerals)
        if all(x['visible'] for x in r['exporters']) and max([len(b['pts']) for b in r['accepted']] + [0]) < 5000:
            clean.append((c, r))
    # ---- replay of observed runs in the model (inside Coq): same batches, same frames => same terminal state
    pick = clean[:1] + [clean[(i * 7) % len(clean)] for i in range(1, 12 if tier == 'quick' else 60)] if clean else []
    L = ['From Coq Require Import List NArith Bool.', 'From Stef Require Import Pipeline.', 'Import ListNotations.', 'Open Scope N_scope.',
         'Definition b2n (b : bool) : N := if b then 1 else 0.',
         'Definition summary (o : option sys) : list (list N) :=',
         '  match o with None => [[0]] | Some st => [1] :: map (fun s => [x_count s; x_last_acked s; N.of_nat (length (x_pending s)); b2n (quiescent PCurrent s); last (x_acks s) 0] ++ map (fun fr => N.of_nat (length fr)) (r_delivered s)) st end.', '']
    want = []
    for c, r in pick:
        sched, fr_all = [], []
        for e in range(c['exporters']):
            s, fr = c19_schedule(c, r, e)
            sched += s
            fr_all.append(fr)
        for ver in ('PCurrent', 'PPinned'):
            L.append(f'Eval vm_compute in summary (run {ver} [{"; ".join(sched)}] (sys_init {c["exporters"]})).')
        want.append((c, r, fr_all))
    validated = 0
    if want:
        vals, log = coq_eval('c19_cases', '\n'.join(L) + '\n')
        if vals is None or len(vals) != 2 * len(want):
            verdict.violation(dict(broken='the generated schedule file does not evaluate', log=(log or '')[-3000:], got=None if vals is None else len(vals), want=2 * len(want)),
                              'model: coqc failed on the generated schedules', no_input=True)
        else:
            for i, (c, r, fr_all) in enumerate(want):
                cur, pin = vals[2 * i], vals[2 * i + 1]
                obs = [[1]] + [[x['records'], x['last_acked'], len(x['pending'] or []), 1, x['last_acked']] + fr for x, fr in zip(r['exporters'], fr_all)]
                if cur != obs:
                    counters['trace_not_in_model'] += 1
                    verdict.violation(dict(seed=seed, case=c, observed_terminal=obs, model_terminal=cur, how_to_run=how,
                                           broken='correspondence C19: the observed run replayed as a schedule of coq/Net/Pipeline.v (PCurrent) ends in another state'),
                                      f'correspondence: {c["id"]}: model terminal state {cur} differs from the observed one {obs}; the property holds on the observation', no_input=True)
                else:
                    validated += 1
                    if pin != cur:
                        stats['replays_where_pinned_model_differs'] += 1
    extra.update(traces_validated_against_impl=validated, replays=len(want))
    for fam in ('corpus', 'single', 'concurrent', 'multi', 'spread', 'factory'):
        k = next((i for i, c in enumerate(cases) if c['family'] == fam and i < len(results)), None)
        if k is not None:
            r = results[k]
            samples.append(dict(case={k2: v for k2, v in cases[k].items()}, accepted_batches=[(b['e'], b['w'], b['b'], len(b['pts'])) for b in r['accepted']][:12],
                                consumer_calls=[len(x) for x in r['calls']], exporters=r['exporters'], quiet_ms=r['quiet_ms'], a_data_point=(r.get('samples') or [''])[0][:300]))
    return len(cases), len(distinct), stats, extra


# ------------------------------------------------------------------------------ main
LEVEL_NOTES = {
    'C14': ['decision logic only: "the server decodes" is stated as "the server\'s reader opens the stream with the encoder tree of the client\'s writer"; the record round trip over one tree is C01, the projection onto common fields C04',
            'sums of field counts are taken in N (uint wrap-around of Compatible not modelled; counts of generated schemas are tiny, Deserialize caps the struct count at 1024)',
            'gRPC transport (C15), protobuf, bufconn are exercised, not modelled; append-only evolution is stated on numbered schemas (shared structs keep their numbers)',
            'the full statement is refuted in the model (C14_sound_refuted, C14_rejects_refuted): client-ahead (D9, pinned by TestSchemaCompatibility/ClientSuperset) and count-only negotiation are known findings'],
    'C19': ['protocol level: record contents (C01/C17), transport bytes (C15), consumer outcomes other than "accepted" and send failures (C16), connection loss and restart are outside the model',
            'which interleavings the Go scheduler produces is not modelled: the LTS offers all of them, the harness samples (thorough runs under -race)',
            'liveness is stated as: non-quiescent states can step, internal runs are bounded by a measure, quiescent states have delivered and acknowledged everything; timers (100 ms flusher, 10 ms ack tick) are "may happen at any time"',
            'record ids are N (uint64 in Go)'],
}


def main():
    prop = sys.argv[1] if len(sys.argv) > 1 else ''
    if prop not in ('C14', 'C19'):
        print(__doc__)
        sys.exit(2)
    seed, tier = vlib.seed_and_tier(sys.argv[2] if len(sys.argv) > 2 else 'quick')
    t0 = time.time()
    verdict = CappedVerdict(prop)
    errs = ensure_vo(prop)
    info = vlib.proof_stage(prop, verdict)
    if any('inconsistent assumptions' in b for b in info['broken']) or any('inconsistent' in e for e in errs):
        errs = ensure_vo(prop, force=True)       # a dependency was rebuilt under us: once more
        info = vlib.proof_stage(prop, verdict)
    if errs:
        info['broken'] = errs + info['broken']
    rng = SplitMix(seed)
    counters, samples = collections.Counter(), []
    if prop == 'C14':
        evals, distinct, stats, extra = run_c14(rng, tier, verdict, counters, samples, seed, info)
    else:
        evals, distinct, stats, extra = run_c19(rng, tier, verdict, counters, samples, seed, info)
    if info['broken'] and not verdict.violations:
        verdict.violation(dict(broken=info['broken'], searched=f'{evals} cases, no failing input'),
                          'proof: obligation no longer checks: ' + '; '.join(info['broken'])[:300], no_input=True)
    coverage = dict(info)
    coverage.pop('broken', None)
    coverage['checker_cmd'] = ('cd coq && for f in ' + ' '.join(MY_V[prop]) + f'; do coqc -R . Stef $f; done && coqc -R . Stef Props/{prop}.v   '
                               '(after integration: ' + info['checker_cmd'] + ')')
    tb = vlib.TRUSTED_COMMON + ['the model is evaluated inside Coq (vm_compute in a generated cases file compiled by coqc), no extraction for this property']
    if prop == 'C14':
        tb += ['stefc, go build and grpc-go/bufconn are run, not modelled; harness/grpcpair + harness/rt (reflective driver) and the dump projection in tools/check_grpc.py (convert) are trusted']
        rule = ('one evaluation = one (schema pair, direction, advertised limit, record history) run through the real Connect / New<Root>Writer / StreamServer / generated reader '
                'and decided by the model; distinct by (pair, direction, limit, outcome class, history prefix); all are non-trivial (a handshake is performed)')
    else:
        tb += ['go test -overlay: the harness file is compiled into package stefexporter, nothing in /repo is edited; content equality of data points is judged on a canonical rendering (sha256) produced by the harness for both sides']
        rule = ('one evaluation = one end-to-end run (N real exporters -> real receiver over localhost gRPC, W concurrent callers each making B ConsumeMetrics calls); '
                'distinct by (configuration, observed frame sizes); non-trivial = at least one data point accepted')
    coverage.update(dict(broken_obligations=info['broken'], trusted_base=tb, evaluations=evals, distinct_nontrivial=distinct, rule=rule,
                         distribution=dict(stats), outcome_counts=dict(counters), samples=samples, exhaustive=False))
    coverage.update(extra)
    coverage['violations_not_written_as_replay'] = verdict.suppressed
    rc = verdict.finish()
    vlib.write_evidence(prop, tier, seed, coverage, time.time() - t0, len(verdict.violations) + verdict.suppressed, LEVEL_NOTES[prop])
    sys.exit(rc)


if __name__ == '__main__':
    main()
