#!/usr/bin/env python3
"""C12 / C13 — the IDL front end: lexer, parser, reference resolution, printer, wire schema.
usage: check_idl.py C12|C13 [quick|thorough]

Proof obligations: coq/Props/C12.v, coq/Props/C13.v over the model in coq/Idl/.
Tie: harness/idl (the real idl.NewLexer / idl.Parser / Schema.PrettyPrint / schema.NewWireSchema /
WireSchema.Serialize+Deserialize built from /repo's working tree) and the extracted model
(ocaml/idl_driver.ml) read the same inputs:
  * every checked-in .stef file,
  * grammar-near mutations (each token deleted, duplicated, replaced by every other token kind),
  * random schemas from a grammar-directed generator,
  * random byte strings incl. invalid UTF-8, odd line ends and number spellings,
  * (C13) random serialized wire schemas around the 1024 limit,
and the projected observables are compared:
  C12: token stream (kind, start line:col:offset, identifier / number), outcome class, error
       position and message class, canonical schema, unused-type warnings;
  C13: printed text, wire schema counts and bytes per root, the result of parsing the printed text,
       Deserialize/Serialize results.
The property oracles are evaluated on the Go observations alone.  coq/Idl/Unicode.v is compared
with the running toolchain's unicode tables on every run."""
import collections, glob, json, os, re, sys, time
sys.path.insert(0, os.path.dirname(os.path.abspath(__file__)))
import vlib
from vlib import SplitMix

IDL_FILES = ['Idl/Unicode.v', 'Idl/Lexer.v', 'Idl/Ast.v', 'Idl/Parser.v', 'Idl/Resolve.v', 'Idl/Printer.v',
             'Idl/WireSchema.v', 'Idl/TokSpec.v', 'Idl/SchemaSpec.v', 'Idl/LexerFacts.v', 'Idl/ParserFacts.v',
             'Idl/ResolveFacts.v', 'Idl/RecFacts.v', 'Idl/PruneFacts.v', 'Idl/ParseFacts.v', 'Idl/WireSchemaFacts.v',
             'Idl/WireOrderFacts.v', 'Idl/PrinterFacts.v', 'Idl/IndexFacts.v']
SHARED_DEPS = ['Prim/Varint.vo', 'Prim/VarintFacts.vo', 'Codec/Codecs.vo', 'Schema/Schema.vo', 'Stream/Frame.vo',
               'Stream/Reader.vo']


# ---------------------------------------------------------------- building our own .v files before integration
def ensure_idl_vo():
    """compile coq/Idl/*.v in dependency order when a .vo is missing or stale (the files are not in
    _CoqProject until integration; afterwards `make` has already done this and nothing happens)"""
    log = []
    with vlib.Lock('coq'):
        newest_dep = 0
        for d in SHARED_DEPS:
            p = os.path.join(vlib.COQ, d)
            if os.path.exists(p):
                newest_dep = max(newest_dep, os.path.getmtime(p))
        rebuilt = False
        for f in IDL_FILES:
            src = os.path.join(vlib.COQ, f)
            if not os.path.exists(src):
                continue
            vo = src + 'o'
            stale = (not os.path.exists(vo) or os.path.getmtime(vo) < os.path.getmtime(src)
                     or os.path.getmtime(vo) < newest_dep or rebuilt)
            if not stale:
                continue
            rc, out = vlib.sh(f'timeout 900 coqc -R . Stef {f}', cwd=vlib.COQ, timeout=960)
            rebuilt = True
            if rc != 0:
                log.append(f'{f}: {out.strip()[-600:]}')
                return False, log
    return True, log


def refresh_ocaml_stamp():
    """ocaml_build_unit keys its cache on the files listed in _CoqProject; before integration our
    model files are not among them, so drop the stamp when one of them is newer"""
    stamp = os.path.join(vlib.BUILD, 'ocaml_idl.stamp')
    if not os.path.exists(stamp):
        return
    t = os.path.getmtime(stamp)
    listed = set(vlib.coq_project_files())
    for f in IDL_FILES:
        p = os.path.join(vlib.COQ, f)
        if f not in listed and os.path.exists(p) and os.path.getmtime(p) > t:
            os.remove(stamp)
            return


# ---------------------------------------------------------------- inputs
def corpus_files():
    pats = ['go/otel/otel.stef', 'examples/*/*.stef', 'stefc/generator/testdata/*.stef', 'go/pkg/idl/testdata/*.stef',
            'go/pkg/idl/testdata/fuzz/*/*', 'otelcol/**/*.stef', 'java/**/*.stef']
    out = []
    for p in pats:
        out += sorted(glob.glob(os.path.join(vlib.REPO, p), recursive=True))
    seen, res = set(), []
    for f in out:
        if os.path.isfile(f) and f not in seen:
            seen.add(f)
            res.append(f)
    return res


def fuzz_seed_bytes(raw):
    """go test fuzz corpus file -> the []byte / string argument, if it is one"""
    m = re.search(rb'^(?:\[\]byte|string)\((".*")\)\s*$', raw, re.M)
    if not raw.startswith(b'go test fuzz') or not m:
        return None
    try:
        return eval(b'b' + m.group(1)) if b'\\' in m.group(1) or True else None
    except Exception:
        return None


# hand-written seeds: every production of the grammar in a few dozen tokens
SEEDS = [
    b'package a.b\n// c\nenum E { x = 1 y = 0x1b z = 0b1_0 }\nmultimap M { key string dict(K) value []V dict(D) }\n'
    b'struct R dict(RD) { s string dict(S) optional e E m M v []V r R optional }\n'
    b'oneof V { i int64 f float64 b bool y bytes dict(B) a []V u uint64 }\nstruct Root root { r R rs []R dict(X) v V }\n',
    b'package p\nstruct A root {\n  x int64\n  y []string dict(D) optional\n  b B\n}\nstruct B { a []A k bytes }\n',
    b'package p\r\nstruct A root { m M e E }\r\nmultimap M { key E value A }\renum E { z = 0 }\n',
    b'package q oneof O { a A s string } struct A root { o O optional os []O } struct Unused { x bool } enum UE { }',
    b'package r\nmultimap M { key string value M2 }\nmultimap M2 { key []M value int64 }\nstruct T root { m M }\nstruct U root { t T u U optional }\n',
]

KW = ['package', 'struct', 'oneof', 'multimap', 'enum', 'optional', 'root', 'dict', 'key', 'value',
      'bool', 'int64', 'uint64', 'float64', 'string', 'bytes']
REPL = KW + ['Zz', 'A', '7', '.', '=', '[', ']', '(', ')', '{', '}', '@', '/', '']
TOK_RE = re.compile(rb'//[^\r\n]*|[A-Za-z_][A-Za-z0-9_]*|[0-9][0-9_bxoBXO]*|[.=\[\](){}]|[^\s]')


def tokens_of(text):
    return [(m.start(), m.end()) for m in TOK_RE.finditer(text) if not m.group(0).startswith(b'//')]


def mutations(text, positions):
    """every listed token deleted, duplicated, replaced by every other token kind"""
    toks = tokens_of(text)
    for i in positions:
        if i >= len(toks):
            continue
        a, b = toks[i]
        orig = text[a:b]
        yield 'dup', text[:b] + b' ' + orig + text[b:]
        for r in REPL:
            rb = r.encode()
            if rb != orig:
                yield ('del' if r == '' else 'repl'), text[:a] + rb + text[b:]


IDENT_POOL = ['A', 'B', 'C', 'D', 'E', 'F', 'Root', 'x', 'y', 'z', 'k', 'v', 'Point', 'Val', 'été', 'Ж',
              'a1', 'b_2', 'n٣', 'Key', 'value1', 'string2', '世界']
PRIMS = ['bool', 'int64', 'uint64', 'float64', 'string', 'bytes']
NUMBERS = ['0', '1', '7', '10', '0x1b', '0XB', '0b101', '0B1', '0o17', '017', '1_000', '0x_b', '0_7', '18446744073709551615',
           '18446744073709551616', '0xbbbbbbbbbbbbbbbb', '0xbbbbbbbbbbbbbbbbb', '1__0', '1_', '0b', '0x', '08', '0b2', '9x', '1o1', '00',
           '0b1111111111111111111111111111111111111111111111111111111111111111', '0o1777777777777777777777', '0o2000000000000000000000']


def gen_schema(rng):
    """grammar-directed: mostly valid schemas, with a small rate of deliberate slips"""
    ntypes = 1 + rng.below(6)
    names = []
    while len(names) < ntypes:
        n = rng.choice(IDENT_POOL)
        if n not in names or rng.chance(1, 30):
            names.append(n)
    kinds = [rng.choice(['struct', 'struct', 'struct', 'oneof', 'multimap', 'enum']) for _ in names]
    kinds[0] = 'struct'
    nl = rng.choice(['\n', '\n', '\r\n', '\r', ' '])
    ind = rng.choice(['  ', '\t', ' '])
    slip = lambda: rng.chance(1, 60)

    def tname():
        if slip():
            return rng.choice(['Nope', 'root', ''])
        k = rng.below(10)
        if k < 5:
            return rng.choice(PRIMS)
        return rng.choice(names)

    def ftype(allow_dict=True):
        t = ''
        if rng.chance(1, 4):
            t += '[]' if not slip() else rng.choice(['[', '[][]', '[ ]'])
        base = tname()
        t += base
        if allow_dict and (rng.chance(1, 4) if base in ('string', 'bytes') or base in names else rng.chance(1, 40)):
            t += ' dict(' + rng.choice(['D', 'K', base if base.isidentifier() and base not in KW else 'D2']) + ')'
        return t

    out = ['package ' + '.'.join(rng.choice(['a', 'b', 'com', 'x1']) for _ in range(1 + rng.below(3)))]
    if rng.chance(1, 5):
        out.append('// comment ' + rng.choice(['', 'struct X {', 'é', '/ / x']))
    nroots = 0
    for n, k in zip(names, kinds):
        if k in ('struct', 'oneof'):
            hdr = k + ' ' + n
            if k == 'struct':
                m = rng.below(8)
                if m == 0:
                    hdr += ' dict(' + rng.choice(['D', n]) + ')'
                elif m <= 2 or nroots == 0:
                    hdr += ' root'
                    nroots += 1
                elif slip():
                    hdr += ' dict(D) root'
            elif slip():
                hdr += ' root'
            fields, used = [], []
            for _ in range(rng.below(5) + (1 if rng.chance(9, 10) else 0)):
                fn = rng.choice(IDENT_POOL + ['f%d' % rng.below(9)])
                if fn in used and not slip():
                    continue
                used.append(fn)
                f = ind + fn + ' ' + ftype()
                if rng.chance(1, 4):
                    f += ' optional' * (1 + (1 if slip() else 0))
                if rng.chance(1, 12):
                    f += ' // ' + rng.choice(['note', 'x }', ''])
                fields.append(f)
            out.append(hdr + ' {' + nl + nl.join(fields) + nl + '}')
        elif k == 'multimap':
            kd = ' dict(' + rng.choice(['K', 'D']) + ')' if rng.chance(1, 5) else ''
            vd = ' dict(' + rng.choice(['V', 'D']) + ')' if rng.chance(1, 5) else ''
            out.append('multimap ' + n + ' {' + nl + ind + 'key ' + ftype() + kd + nl + ind + 'value ' + ftype() + vd + nl + '}')
        else:
            fs = [ind + rng.choice(IDENT_POOL) + ' = ' + (rng.choice(NUMBERS) if rng.chance(1, 3) else str(rng.below(300)))
                  for _ in range(rng.below(4))]
            out.append('enum ' + n + ' {' + nl + nl.join(fs) + nl + '}')
    sep = rng.choice([nl, nl + nl, ' '])
    return sep.join(out).encode('utf-8')


FRAGS = [b'package', b'struct', b'oneof', b'multimap', b'enum', b'root', b'dict', b'key', b'value', b'optional', b'string',
         b'int64', b'{', b'}', b'(', b')', b'[', b']', b'.', b'=', b' ', b'\n', b'\r', b'\r\n', b'\t', b'//', b'/', b'// x\r',
         b'A', b'b1', b'_', b'0', b'0x1f', b'1_0', b'9', b'\xc3\xa9', b'\xd0\x96', b'\xd9\xa3', b'\xe2\x80\xa8', b'\xc2\x85',
         b'\xc2\xa0', b'\xe3\x80\x80', b'\xef\xbb\xbf', b'\xff', b'\xc0\xaf', b'\xe0\x80\x80', b'\xed\xa0\x80', b'\xf4\x90\x80\x80',
         b'\xf0\x9f\x98\x80', b'\xf0\x90\x90\x80', b'\xe4\xb8', b'\xc3', b'\x00', b'\x0b', b'\x0c', b'\xef\xbf\xbd', b'\xf0\x9d\x9f\x8f']


def gen_bytes(rng):
    k = rng.below(4)
    if k == 0:
        return bytes(rng.below(256) for _ in range(rng.below(40)))
    if k == 1:
        return b''.join(rng.choice(FRAGS) for _ in range(rng.below(30)))
    if k == 2:
        s = bytearray(rng.choice(SEEDS))
        for _ in range(1 + rng.below(4)):
            i = rng.below(len(s))
            m = rng.below(3)
            if m == 0:
                s[i] = rng.below(256)
            elif m == 1:
                del s[i]
            else:
                s[i:i] = rng.choice(FRAGS)
        return bytes(s)
    return b'package a enum E { v = ' + rng.choice(NUMBERS).encode() + rng.choice([b' }', b'}', b'', b' w = 1 }']) + \
        rng.choice([b'', b' struct R root { e E }'])


def leb(v):
    out = bytearray()
    while True:
        b = v & 0x7f
        v >>= 7
        if v:
            out.append(b | 0x80)
        else:
            out.append(b)
            return bytes(out)


def gen_wire(rng, tier):
    cases = []
    for n in [0, 1, 2, 3, 100, 1023, 1024, 1025, 1026, 2000, 1 << 20, (1 << 64) - 1]:
        body = b''.join(leb(rng.below(1 << rng.below(20))) for _ in range(min(n, 1100)))
        cases.append(leb(n) + body)
    for _ in range(150 if tier == 'quick' else 2000):
        n = rng.choice([0, 1, 2, 5, 17, 300, 1024])
        vals = [rng.choice([0, 1, 127, 128, 255, 16383, 16384, (1 << 32), (1 << 63), (1 << 64) - 1, rng.below(1 << rng.below(64))])
                for _ in range(n)]
        b = leb(n) + b''.join(leb(v) for v in vals)
        m = rng.below(8)
        if m == 0 and b:
            b = b[:rng.below(len(b))]                       # truncated
        elif m == 1:
            b = b + bytes(rng.below(256) for _ in range(rng.below(4)))   # trailing bytes
        elif m == 2:
            b = b'\x80' * rng.below(12) + b                 # non-canonical / overlong varints
        elif m == 3:
            b = bytes(rng.below(256) for _ in range(rng.below(30)))
        cases.append(b)
    return cases


# ---------------------------------------------------------------- observation parsing and oracles
def fields_of(line):
    parts = line.split('\t')
    d = {'head': parts[0]}
    for p in parts[1:]:
        k, _, v = p.partition('=')
        d[k] = v
    return d


def split_top(s, sep):
    """split on sep outside brackets"""
    out, depth, cur = [], 0, ''
    for ch in s:
        if ch in '{[(':
            depth += 1
        elif ch in '}])':
            depth -= 1
        if ch == sep and depth == 0:
            out.append(cur)
            cur = ''
        else:
            cur += ch
    out.append(cur)
    return out


def parse_canon(s):
    """canonical schema string -> dict(enums, mmaps, structs)"""
    items = split_top(s, ';')
    sch = dict(pkg=items[0][4:], enums={}, mmaps={}, structs={}, order=[])
    for it in items[1:]:
        kind, rest = it[0], it[2:]
        name, _, body = rest.partition('{')
        body = body[:-1]
        sch['order'].append((kind, name))
        if kind == 'E':
            sch['enums'][name] = body
        elif kind == 'M':
            parts = split_top(body, ',')
            sch['mmaps'][name] = dict(k=parts[1][2:], v=parts[2][2:])
        else:
            attrs, _, fl = body.partition('|')
            a = dict(x.split('=', 1) for x in attrs.split(','))
            fields = []
            if fl:
                for f in split_top(fl, ','):
                    fn, _, r = f.partition(':')
                    ty, _, opt = r.rpartition(':')
                    fields.append((fn, ty, opt))
            sch['structs'][name] = dict(attrs=a, fields=fields)
    return sch


TYPE_REF = re.compile(r'(none|ref:[^\]@:,]*|weird[^\]@,]*|struct:[^\]@,]+|map:[^\]@,]+|enum:[^\]@,]+)')


def oracle_c12(text, obs):
    """the statement of C12 on the implementation's own observation; returns list of failures"""
    bad = []
    head = obs['head']
    if head.startswith('panic'):
        return ['the parser panicked: ' + head]
    if head.startswith('err'):
        m = re.match(r'err (\d+):(\d+):(\d+) (\S+)', head)
        if not m:
            return ['error without position: ' + head]
        line, col, ofs = int(m.group(1)), int(m.group(2)), int(m.group(3))
        nrunes = len(text.decode('utf-8', 'replace'))
        nlines = text.count(b'\n') + text.count(b'\r')
        if line < 1 or col < 1 or ofs > len(text) or line > 1 + nlines or col > 1 + nrunes + 1:
            bad.append(f'error position {line}:{col} (offset {ofs}) outside the input ({len(text)} bytes, {nlines} line ends)')
        if m.group(4).startswith('other') or m.group(4).startswith('nonidl'):
            bad.append('unclassified error message ' + m.group(4))
        return bad
    if head != 'ok':
        return ['unexpected outcome ' + head]
    sch = parse_canon(obs['S'])
    names = [n for _, n in sch['order']]
    if len(set(names)) != len(names):
        bad.append('top-level names not unique')
    defined = dict(struct=set(sch['structs']), map=set(sch['mmaps']), enum=set(sch['enums']))
    def check_type(where, ty):
        for ref in TYPE_REF.findall(ty):
            if ref == 'none' or ref.startswith('ref:') or ref.startswith('weird'):
                bad.append(f'{where}: unresolved type {ref}')
            else:
                k, _, n = ref.partition(':')
                if n not in defined[k]:
                    bad.append(f'{where}: {ref} has no definition')
                if sum(n in d for d in defined.values()) != 1:
                    bad.append(f'{where}: {ref} resolves to {sum(n in d for d in defined.values())} definitions')
    for n, st in sch['structs'].items():
        fns = [f[0] for f in st['fields']]
        if len(set(fns)) != len(fns):
            bad.append(f'struct {n}: field names not unique')
        if st['attrs'].get('root') == '1' and not st['fields']:
            bad.append(f'root struct {n} has no field')
        for fn, ty, _ in st['fields']:
            check_type(f'{n}.{fn}', ty)
    for n, mm in sch['mmaps'].items():
        check_type(f'{n}.key', mm['k'])
        check_type(f'{n}.value', mm['v'])
    return bad


def strip_rec(s):
    return s


def oracle_c13(obs):
    """print/parse round trip and wire schema stability on the Go observation; returns
    (failures, known) where known = list of known-finding ids matched"""
    bad, known = [], []
    if obs['head'] != 'ok':
        return bad, known
    if obs.get('T', '').startswith('panic'):
        return ['PrettyPrint panicked'], known
    r = obs.get('R', '')
    if r != 'ok':
        if obs.get('C') == '-' and r.startswith('err') and r.endswith('toplevel') and obs['S'].count(';') == 0:
            known.append('C13-empty-schema')
        else:
            bad.append('printed schema does not parse: ' + r)
        return bad, known
    if obs['S2'] != obs['S']:
        bad.append('parse(print(s)) differs from s')
    if obs['C2'] != obs['C']:
        bad.append('wire schema changed by print/parse')
    if 'panic' in obs.get('C', ''):
        bad.append('NewWireSchema panicked')
    return bad, known


# ---------------------------------------------------------------- main
def hexline(cmd, b):
    return cmd + ' ' + (b.hex() if b else '-')


def main():
    if len(sys.argv) < 2 or sys.argv[1] not in ('C12', 'C13'):
        print(__doc__)
        sys.exit(2)
    PROP = sys.argv[1]
    seed, tier = vlib.seed_and_tier(sys.argv[2] if len(sys.argv) > 2 else 'quick')
    t0 = time.time()
    verdict = vlib.Verdict(PROP)
    ok_idl, idl_log = ensure_idl_vo()
    if not ok_idl:            # shared .vo files missing (fresh tree): build them, then ours
        vlib.regen()
        vlib.coq_build()
        ok_idl, idl_log = ensure_idl_vo()
    info = vlib.proof_stage(PROP, verdict)
    if not ok_idl:
        info['broken'] = info['broken'] + ['coq/Idl does not compile: ' + '; '.join(idl_log)]
    refresh_ocaml_stamp()
    ok_oc, log_oc = vlib.ocaml_build_unit('idl', 'ExtractIdl.v', ('idl_driver',))
    ok_go, log_go, gobin = vlib.go_build('idl')
    model = os.path.join(vlib.BUILD, 'idl_driver')
    rng = SplitMix(seed)
    stats = collections.Counter()
    outcome_counts = collections.Counter()
    counters = collections.Counter()
    samples = []
    coverage = dict(info)
    known = {k['id']: k for k in vlib.load_known() if k.get('property') == PROP and k.get('status') == 'known'}
    # integration/idl.json carries our entries until they are merged into known_findings.json
    integ = os.path.join(vlib.VERIF, 'integration', 'idl.json')
    if os.path.exists(integ):
        for k in json.load(open(integ)).get('known_findings', []):
            if k.get('property') == PROP and k.get('status') == 'known':
                known.setdefault(k['id'], k)
    texts = []          # (class, bytes)
    wire_cases = []
    n_eval = 0
    distinct = set()

    def add(cls, b):
        texts.append((cls, b))
        stats[cls] += 1

    if not ok_go:
        verdict.violation(dict(broken='go build of harness/idl against /repo failed', log=log_go[-3000:]),
                          'harness does not build against the working tree', no_input=True)
    elif not ok_oc:
        verdict.violation(dict(broken='extraction/ocaml build failed', log=log_oc[-3000:]), 'model does not extract', no_input=True)
    else:
        # ---- tie of the unicode tables
        _, uni = vlib.run_lines(gobin, ['U letter', 'U digit', 'U space'])
        src = open(os.path.join(vlib.COQ, 'Idl', 'Unicode.v')).read()
        for name, line in zip(('letter_ranges', 'digit_ranges', 'space_ranges'), uni):
            m = re.search(r'Definition %s : list \(N \* N\) :=\s*\[(.*?)\]\.' % name, src, re.S)
            mine = ','.join(f'{a}-{b}' for a, b in re.findall(r'\((\d+), (\d+)\)', m.group(1))) if m else None
            if mine != line.split(' ', 1)[1]:
                verdict.violation(dict(broken=f'coq/Idl/Unicode.v {name} differs from the unicode tables of the Go toolchain '
                                       f'({line.split(" ")[0]}); regenerate it from `build/go_idl` command `U`'),
                                  'unicode class table of the model is out of date', no_input=True)
        # ---- inputs
        files = corpus_files()
        corpus = []
        for f in files:
            raw = open(f, 'rb').read()
            fz = fuzz_seed_bytes(raw)
            corpus.append((os.path.relpath(f, vlib.REPO), fz if fz is not None else raw))
        cdir = os.path.join(vlib.VERIF, 'corpus', PROP)
        for f in sorted(glob.glob(os.path.join(cdir, '*'))):
            add('corpus_regression', open(f, 'rb').read())
        for name, b in corpus:
            add('checked_in_file', b)
        for s in SEEDS:
            add('seed', s)
        if PROP == 'C12':
            for s in SEEDS:
                for kind, t in mutations(s, range(len(tokens_of(s)))):
                    add('seed_mutation_' + kind, t)
            per_file = 6 if tier == 'quick' else 120
            for name, b in corpus:
                nt = len(tokens_of(b))
                if nt == 0:
                    continue
                pos = sorted(set(rng.below(nt) for _ in range(per_file))) if nt > per_file else range(nt)
                for kind, t in mutations(b, pos):
                    add('file_mutation_' + kind, t)
            for _ in range(1500 if tier == 'quick' else 30000):
                add('random_schema', gen_schema(rng))
            for _ in range(2500 if tier == 'quick' else 60000):
                add('random_bytes', gen_bytes(rng))
            # duplicate names at every pair of positions of wide definitions (struct, oneof fields;
            # top-level names), with mixed line endings before the offending line
            for kw in ('struct', 'oneof'):
                for n in (2, 3, 8, 9, 10, 11, 17, 24) if tier == 'quick' else range(2, 30):
                    pairs = [(i, j) for i in range(n) for j in range(i + 1, n)]
                    if tier == 'quick' and len(pairs) > 14:
                        pairs = [pairs[rng.below(len(pairs))] for _ in range(10)] + [(0, n - 1), (7, n - 1), (8, n - 1), (n - 2, n - 1)]
                    for (i, j) in pairs:
                        if not (0 <= i < j < n):
                            continue
                        names = ['f%d' % k for k in range(n)]
                        names[j] = names[i]
                        eol = rng.choice(['\n', '\r\n', '\r', '\n', '\n'])
                        body = ''.join('  %s uint64%s' % (nm, rng.choice(['\n', eol])) for nm in names)
                        add('wide_duplicate_field', ('package a.b' + eol + 'struct R root {' + eol + '  X T' + eol + '}' + eol
                                                     + kw + ' T {' + eol + body + '}\n').encode())
            for n in (3, 9, 12):
                for j in range(1, n):
                    defs = ['struct S%d {\n  a uint64\n}\n' % k for k in range(n)]
                    defs[j] = defs[j].replace('S%d' % j, 'S%d' % rng.below(j))
                    add('duplicate_top_level', ('package a\nstruct R root {\n  x S0\n}\n' + ''.join(defs)).encode())
        else:
            for _ in range(2500 if tier == 'quick' else 60000):
                add('random_schema', gen_schema(rng))
            for s in SEEDS:
                toks = tokens_of(s)
                for kind, t in mutations(s, sorted(set(rng.below(len(toks)) for _ in range(12 if tier == 'quick' else len(toks))))):
                    add('seed_mutation_' + kind, t)
            for _ in range(300 if tier == 'quick' else 5000):
                add('random_bytes', gen_bytes(rng))
            wire_cases = gen_wire(rng, tier)
        # ---- run both sides
        lines = []
        for cls, b in texts:
            if PROP == 'C12':
                lines.append(hexline('L', b))
            lines.append(hexline('P', b))
        for b in wire_cases:
            lines.append(hexline('D', b))
        # code point classes at every range boundary of the three tables
        bounds = sorted(set(int(x) + d for l in uni for r in l.split(' ', 1)[1].split(',') for x in r.split('-') for d in (-1, 0, 1)
                            if 0 <= int(x) + d <= 0x10FFFF) | {0x10FFFF, 0xD800, 0xDFFF, 0xFFFD})
        for i in range(0, len(bounds), 400):
            lines.append('K ' + ' '.join(map(str, bounds[i:i + 400])))
        rc_g, go_out = vlib.run_lines(gobin, lines, timeout=1500)
        # VERIF_IDL_MODEL_CMD=Q runs the model of the code before the D7/D8 fixes (to replay the old tree)
        mcmd = os.environ.get('VERIF_IDL_MODEL_CMD', 'P')
        rc_m, mo_out = vlib.run_lines(model, [mcmd + l[1:] if l.startswith('P ') else l for l in lines], timeout=1500)
        if len(go_out) != len(lines) or len(mo_out) != len(lines):
            k = min(len(go_out), len(mo_out))
            verdict.violation(dict(broken='driver output length', go=len(go_out), model=len(mo_out), want=len(lines),
                                   first_unanswered=lines[k][:4000] if k < len(lines) else None),
                              'a driver crashed or hung (see first_unanswered)', no_input=(len(go_out) == len(lines)))
        else:
            idx = 0
            for cls, b in texts:
                n_eval += 1
                distinct.add(b)
                replay_base = dict(seed=seed, input_class=cls, input_hex=b.hex(), input_text=b.decode('utf-8', 'replace')[:2000],
                                   how_to_run=f'echo "P {b.hex() or "-"}" | build/go_idl ; echo "P {b.hex() or "-"}" | build/idl_driver')
                if PROP == 'C12':
                    gl, ml = go_out[idx], mo_out[idx]
                    idx += 1
                    if gl != ml:
                        counters['disagree_lexer'] += 1
                        verdict.violation(dict(replay_base, observable='token stream', implementation=gl[:3000], model=ml[:3000],
                                               broken='correspondence C12: lexer'), f'{cls}: token stream differs from the model',
                                          no_input=True)
                    if gl.startswith('panic') or 'RUNAWAY' in gl:
                        counters['oracle'] += 1
                        verdict.violation(dict(replay_base, implementation=gl[:500]), f'{cls}: the lexer panicked or did not reach EOF')
                g, m = fields_of(go_out[idx]), fields_of(mo_out[idx])
                idx += 1
                outcome_counts[g['head'].split(' ')[0] + ('' if g['head'].split(' ')[0] != 'err' else ':' + g['head'].split(' ')[-1].split('/')[0])] += 1
                if PROP == 'C12':
                    fails = oracle_c12(b, g)
                    for f in fails:
                        counters['oracle'] += 1
                        verdict.violation(dict(replay_base, implementation=go_out[idx - 1][:3000]), f'{cls}: {f}')
                    keys = ['head', 'S', 'W']
                else:
                    fails, kn = oracle_c13(g)
                    for kid in kn:
                        counters['known:' + kid] += 1
                        if kid in known:
                            verdict.known_finding(kid, known[kid]['what_fails'])
                        else:
                            fails.append(f'{kid}: schema without a root prints as a bare package line that the parser rejects')
                    for f in fails:
                        counters['oracle'] += 1
                        verdict.violation(dict(replay_base, implementation=go_out[idx - 1][:3000]), f'{cls}: {f}')
                    keys = ['head', 'S', 'C', 'T', 'R', 'S2', 'C2']
                    if m['head'] == 'ok' and m.get('O') != re.sub(r'/[0-9a-f-]+', '', m.get('C', '')):
                        counters['order'] += 1
                        verdict.violation(dict(replay_base, model_wire=m.get('C'), model_init_order=m.get('O'),
                                               broken='theorem C13_wire_schema_order contradicted by evaluation of the model'),
                                          f'{cls}: NewWireSchema order differs from the Init consumption order (model)', no_input=True)
                    if g['head'] == 'ok':
                        counters['schemas_printed'] += 1
                for k in keys:
                    if g.get(k) != m.get(k):
                        counters['disagree_' + k] += 1
                        verdict.violation(dict(replay_base, observable=k, implementation=(g.get(k) or '')[:3000], model=(m.get(k) or '')[:3000],
                                               broken=f'correspondence {PROP}: observable {k}'),
                                          f'{cls}: observable {k} differs between idl/schema packages and the model', no_input=not fails)
                        break
                if len(samples) < 4 and cls in ('random_schema', 'seed_mutation_repl', 'random_bytes', 'checked_in_file') and \
                        not any(s['class'] == cls for s in samples):
                    samples.append({'class': cls, 'input': b.decode('utf-8', 'replace')[:300], 'implementation': go_out[idx - 1][:400]})
            for b in wire_cases:
                n_eval += 1
                distinct.add(b'D' + b)
                gl, ml = go_out[idx], mo_out[idx]
                idx += 1
                stats['wire_bytes'] += 1
                outcome_counts['wire_' + gl.split(' ')[0] + (':' + gl.split(' ')[1] if gl.startswith('err') else '')] += 1
                replay = dict(seed=seed, input_class='wire_bytes', input_hex=b.hex()[:4000],
                              how_to_run=f'echo "D <hex>" | build/go_idl ; ... | build/idl_driver')
                if gl != ml:
                    counters['disagree_wire'] += 1
                    verdict.violation(dict(replay, implementation=gl[:600], model=ml[:600], broken='correspondence C13: Deserialize/Serialize'),
                                      'wire schema (de)serialization differs from the model', no_input=True)
                p = gl.split(' ')
                if p[0] == 'panic':
                    counters['oracle'] += 1
                    verdict.violation(dict(replay, implementation=gl[:300]), 'WireSchema.Deserialize panicked')
                elif p[0] == 'ok':
                    if len(p) < 5 or p[3] != 'again' or p[4] != p[2]:
                        counters['oracle'] += 1
                        verdict.violation(dict(replay, implementation=gl[:600]), 'deserialize(serialize(w)) != w on the implementation')
                    if p[1] != '_' and len(p[1].split(',')) > 1024:
                        counters['oracle'] += 1
                        verdict.violation(dict(replay, implementation=gl[:200]), 'Deserialize accepted more than 1024 struct counts')
                if len(samples) < 6 and p[0] == 'ok' and p[1] != '_' and not any(s.get('class') == 'wire_bytes' for s in samples):
                    samples.append({'class': 'wire_bytes', 'input_hex': b.hex()[:120], 'implementation': gl[:200]})
            while idx < len(lines):
                if go_out[idx] != mo_out[idx]:
                    counters['disagree_classes'] += 1
                    verdict.violation(dict(line=lines[idx][:300], implementation=go_out[idx][:300], model=mo_out[idx][:300],
                                           broken='correspondence: code point classes'), 'unicode classes differ from the model', no_input=True)
                stats['codepoint_class_lines'] += 1
                idx += 1
            # the Python IDL reader of tools/gen/gen_schemas.py (trusted translator behind coq/gen/Schemas.v)
            # against idl.Parse on every checked-in schema: same structs, field order, type kinds, optional flags
            if PROP == 'C12':
                sys.path.insert(0, os.path.join(vlib.VERIF, 'tools', 'gen'))
                try:
                    import gen_schemas
                except ImportError:
                    gen_schemas = None
                PN = {v: k for k, v in (gen_schemas.PRIMS.items() if gen_schemas else [])}

                def pyt(ty):
                    if ty['k'] == 'prim':
                        return 'enum:' + ty['enum'] if 'enum' in ty else 'prim:' + PN[ty['p']]
                    if ty['k'] == 'array':
                        return 'arr[' + pyt(ty['elem']) + ']'
                    return ('struct:' if ty['k'] == 'struct' else 'map:') + ty['name']
                golines = [go_out[2 * i + 1] for i, (c, _) in enumerate(texts) if c == 'checked_in_file']
                for (name, b), line in zip(corpus, golines):
                    g = fields_of(line)
                    if g['head'] != 'ok' or gen_schemas is None:
                        continue
                    try:
                        py = gen_schemas.parse(b.decode('utf-8'))
                    except Exception as e:
                        verdict.violation(dict(schema=name, error=str(e), broken='translator gen_schemas.py cannot read a schema idl.Parse accepts'),
                                          f'{name}: tools/gen/gen_schemas.py rejects it', no_input=True)
                        continue
                    gs = parse_canon(g['S'])
                    pys = {x['name']: x for x in py['structs']}
                    for sn, st in gs['structs'].items():
                        mine = [(f['name'], pyt(f['type']), '1' if f['optional'] else '0') for f in pys.get(sn, {'fields': []})['fields']]
                        theirs = [(fn, re.sub(r'@[^\]:,]*', '', re.sub(r'\(rec=[01P]\)', '', ty)), opt) for fn, ty, opt in st['fields']]
                        stats['translator_structs_compared'] += 1
                        if mine != theirs:
                            counters['disagree_translator'] += 1
                            verdict.violation(dict(schema=name, struct=sn, idl_parse=theirs, gen_schemas=mine,
                                                   broken='translator gen_schemas.py disagrees with idl.Parse'),
                                              f'{name}: struct {sn} read differently by tools/gen/gen_schemas.py', no_input=True)
            # generated wire schema bytes of checked-in generated code (C13)
            if PROP == 'C13':
                scraped = {}
                for gdir in ('go/otel/otelstef', 'examples/*/internal/*'):
                    for gf in glob.glob(os.path.join(vlib.REPO, gdir, '*.go')):
                        for mm in re.finditer(r'var wireSchema(\w+) = \[\]byte\{([^}]*)\}', open(gf, errors='replace').read()):
                            scraped[(os.path.dirname(gf), mm.group(1))] = ''.join('%02x' % int(x, 16) for x in re.findall(r'0x[0-9A-Fa-f]+', mm.group(2)))
                pairs = {'go/otel/otel.stef': 'go/otel/otelstef'}
                for ex in glob.glob(os.path.join(vlib.REPO, 'examples/*/*.stef')):
                    for d in glob.glob(os.path.join(os.path.dirname(ex), 'internal', '*')):
                        pairs[os.path.relpath(ex, vlib.REPO)] = os.path.relpath(d, vlib.REPO)
                for (name, b), line in zip(corpus, [l for (c, _), l in zip(texts, [go_out[i] for i in range(len(texts))]) if c == 'checked_in_file']):
                    if name not in pairs:
                        continue
                    g = fields_of(line)
                    for part in (g.get('C') or '-').split(';'):
                        if ':' not in part:
                            continue
                        root, _, rest = part.partition(':')
                        key = (os.path.join(vlib.REPO, pairs[name]), root)
                        if key in scraped:
                            stats['generated_wire_schema_compared'] += 1
                            if rest.split('/')[-1] != scraped[key]:
                                counters['oracle'] += 1
                                verdict.violation(dict(schema=name, root=root, new_wire_schema=rest, generated_code=scraped[key]),
                                                  f'{name}: wireSchema{root} in the generated code differs from NewWireSchema')
    # computeRecursive keeps no visited set: a chain of N structs with two references each costs 2^N
    # (the parser terminates, but a ~1 KB schema can take days); observed on the implementation only
    if ok_go and PROP == 'C12':
        def chain(depth):
            t = 'package a\n' + '\n'.join(f'struct S{i} {"root" if i == 0 else ""} {{ a S{i+1} b S{i+1} }}' for i in range(depth))
            return hexline('P', (t + f'\nstruct S{depth} {{ x int64 }}').encode())
        times = {}
        for d in (12, 12, 21):
            t1 = time.time()
            vlib.run_lines(gobin, [chain(d)], timeout=300)
            times[d] = min(times.get(d, 1e9), time.time() - t1)
        coverage['recursion_marking_probe_s'] = {str(k): round(v, 3) for k, v in times.items()}
        if times[21] > 0.3 and times[21] > 4 * times[12]:
            kid = 'C12-exponential-recursion-marking'
            if kid in known:
                verdict.known_finding(kid, known[kid]['what_fails'])
            else:
                verdict.violation(dict(input='chain of 21 structs, two references each', seconds=times),
                                  'computeRecursive takes time exponential in the schema depth')
    if info['broken'] and not verdict.violations:
        verdict.violation(dict(broken=info['broken'], searched=f'{n_eval} inputs, none fails'),
                          'proof obligation no longer checks: ' + '; '.join(info['broken'])[:300], no_input=True)
    coverage.update(dict(
        trusted_base=vlib.TRUSTED_COMMON + [
            'coq/Idl/Unicode.v: maximal ranges of unicode.IsLetter/IsDigit/IsSpace dumped from the Go toolchain (compared on every run)',
            'bufio.Reader.ReadRune / utf8.DecodeRune, strconv.ParseUint, sort.Strings, fmt %d: modelled from their source, tied by the correspondence',
            'Go map iteration order: modelled as declaration order; every compared observable is order independent (canonical form sorted by name)',
            'index_schema (names -> numbers) is part of the model of NewWireSchema; Schema.build_root/own_counts is the Init order model shared with C01/C04'],
        evaluations=n_eval, distinct_nontrivial=len(distinct),
        rule='one case = one input text (L: token stream, P: parse/print/wire/reparse) or one serialized wire schema (D) run on the Go '
             'packages and on the extracted model; distinct by input bytes; the empty input is the only trivial case and is counted',
        distribution=dict(stats), outcome_counts=dict(outcome_counts), counters=dict(counters),
        disagreements=sum(v for k, v in counters.items() if k.startswith('disagree')), oracle_failures=counters['oracle'],
        samples=samples, exhaustive=False))
    coverage.pop('broken', None)
    coverage['broken_obligations'] = info['broken']
    rc = verdict.finish()
    assumptions = ['lexer input is an in-memory byte slice (idl.Parse): bufio read errors other than EOF are not modelled',
                   'message texts are compared by class (eat/<want>/<got>, duptop, ...), never verbatim',
                   'computeRecursive walks every acyclic path from every root (exponential in Go and in the model); inputs are kept small']
    vlib.write_evidence(PROP, tier, seed, coverage, time.time() - t0, len(verdict.violations), assumptions)
    sys.exit(rc)


if __name__ == '__main__':
    main()
