#!/usr/bin/env python3
"""C15 / C16 — the gRPC transport and the receiver's acknowledgement machinery.
usage: check_net.py C15|C16 [quick|thorough]

C15: proofs coq/Props/C15.v over coq/Net/Chunk.v.  Tie: the real chunkAssembler over the real
     grpcChunkSource (fake server stream) and the real grpcWriter (recording client stream), run
     in-package through `go test -overlay`, against the extracted model on the same cases:
     exhaustive small space (<= 3 chunks x all splits into <= 3 messages x read sizes
     {1,2,3,7,65536}) plus random larger cases.  Oracle on the Go observations alone: bytes =
     concatenation of the complete chunks (prefix if the reads stop), released only after the
     end-of-chunk message was received, one chunk per Read at most, Stats.
C16: proofs coq/Props/C16.v over coq/Net/Responder.v (LTS).  Tie = trace inclusion: the real
     stefReceiver.onStream + Responder.Run with a scripted source / consumer / response stream;
     every observed trace (consumer calls and SendDataResponse calls, linearised) must be a trace
     of the model LTS for the same script.  Oracle on the observed traces alone: ack ids never
     decrease, an ack covers only accepted or already reported records, bad ranges are the exact
     ranges of rejected batches, in order, none twice; writer/reader record counters in lockstep."""
import collections, json, os, re, sys, time
sys.path.insert(0, os.path.dirname(os.path.abspath(__file__)))
import vlib
from vlib import SplitMix

NET_V = ['Net/Chunk.v', 'Net/ChunkFacts.v', 'Net/Responder.v', 'Net/ResponderFacts.v', 'Net/LockstepFacts.v']
OVERLAY = os.path.join(vlib.VERIF, 'harness', 'overlay')


# ------------------------------------------------------------------------------ builds
EXTRA_DEPS = {'Net/LockstepFacts.v': ['Stream/ReaderFacts.vo']}


def ensure_net_vo():
    """compile coq/Net/*.v (in dependency order) when a .vo is missing or stale; returns list of errors.
    The rest of the development is brought up to date first (LockstepFacts imports the stream model)."""
    errors = []
    vlib.regen()
    vlib.coq_build()
    with vlib.Lock('coq'):
        newest_dep = 0.0
        for f in NET_V:
            src = os.path.join(vlib.COQ, f)
            vo = src[:-2] + '.vo'
            dep = newest_dep
            for d in EXTRA_DEPS.get(f, []):
                dp = os.path.join(vlib.COQ, d)
                if os.path.exists(dp):
                    dep = max(dep, os.path.getmtime(dp))
            stale = (not os.path.exists(vo)) or os.path.getmtime(vo) < os.path.getmtime(src) or os.path.getmtime(vo) < dep
            if stale:
                rc, out = vlib.sh(f'timeout 900 coqc -R . Stef {f}', cwd=vlib.COQ, timeout=960)
                if rc != 0:
                    errors.append(f'{f} does not check: ' + (out.strip().splitlines()[-1] if out.strip() else 'coqc failed'))
                    open(os.path.join(vlib.BUILD, 'coq_net.log'), 'a').write(out)
                    break
            if os.path.exists(vo) and f != 'Net/LockstepFacts.v':
                newest_dep = max(newest_dep, os.path.getmtime(vo))
    return errors


def build_model():
    stamp = os.path.join(vlib.BUILD, 'ocaml_net.stamp')
    srcs = [os.path.join(vlib.COQ, f) for f in NET_V]
    if os.path.exists(stamp) and any(os.path.getmtime(s) > os.path.getmtime(stamp) for s in srcs):
        os.remove(stamp)      # coq/Net may not be listed in _CoqProject yet: the cache key would miss it
    return vlib.ocaml_build_unit('net', 'ExtractNet.v', ('net_driver',))


def build_go_test(name, moddir, pkg, overlay_target, overlay_src, race=False):
    """go test -c with an overlay file injected into a /repo package; returns (ok, log, binary)"""
    ov = os.path.join(vlib.BUILD, f'overlay_{name}.json')
    json.dump({'Replace': {os.path.join(vlib.REPO, overlay_target): os.path.join(OVERLAY, overlay_src)}}, open(ov, 'w'))
    out_bin = os.path.join(vlib.BUILD, f'go_{name}_verif.test')
    with vlib.Lock('go'):
        rc, out = vlib.sh(f'go test -c -vet=off {"-race " if race else ""}-overlay {ov} -tags verif -o {out_bin} {pkg}',
                          cwd=os.path.join(vlib.REPO, moddir), env=vlib.GOENV, timeout=1500)
    return rc == 0, out, out_bin


def run_go_test(binary, test, env_extra, timeout=900):
    env = dict(vlib.GOENV, **env_extra)
    return vlib.sh([binary, '-test.run', test + '$', '-test.count=1', '-test.timeout=20m'], env=env, timeout=timeout)


# ------------------------------------------------------------------------------ C15
def hexb(b):
    return b.hex() if b else '-'


def compositions(L, maxparts):
    """all ways to cut a chunk of length L into 1..maxparts consecutive pieces (empty pieces allowed)"""
    out = []
    def rec(start, parts, acc):
        if parts == 1:
            out.append(acc + [(start, L)])
            return
        for cut in range(start, L + 1):
            rec(cut, parts - 1, acc + [(start, cut)])
    for p in range(1, maxparts + 1):
        rec(0, p, [])
    return out


class ByteGen:
    def __init__(self):
        self.k = 0
    def take(self, n):
        b = bytes(((self.k + i) * 7 + 1) % 251 for i in range(n))
        self.k += n
        return b


def c15_case_line(items, reads):
    toks = []
    for it in items:
        toks.append('e' if it is None else f'm:{hexb(it[0])}:{1 if it[1] else 0}')
    return 'asm ' + ' '.join(toks) + ' | ' + ' '.join(map(str, reads))


def c15_spec(items):
    """independent reading of the protocol: complete chunks with the index (1-based count of source
    calls) at which each became complete; an error item drops the partial chunk"""
    chunks, acc = [], b''
    for i, it in enumerate(items):
        if it is None:
            acc = b''
            continue
        acc += it[0]
        if it[1]:
            chunks.append((acc, i + 1))
            acc = b''
    return chunks


def c15_oracle(items, reads, obs_line, drained_expected):
    """property oracle on the implementation's observations alone; returns None or a finding"""
    toks = obs_line.split(' ')
    if not toks or not toks[-1].startswith('S:'):
        return ('malformed-output', obs_line[:120])
    stats = toks[-1].split(':')
    obs = toks[:-1]
    if len(obs) != len(reads):
        return ('read-count', len(obs), len(reads))
    chunks = c15_spec(items)
    allbytes = b''.join(c for c, _ in chunks)
    # chunk boundaries in the concatenation
    bounds, off = [], 0
    for c, _ in chunks:
        bounds.append((off, off + len(c)))
        off += len(c)
    delivered = b''
    last_k = 0
    saw_final_error = False
    for i, (tok, n) in enumerate(zip(obs, reads)):
        f = tok.split(':')
        if f[0].startswith('EN'):
            return ('bytes-with-error', i, tok)
        if f[0] == 'E':
            k = int(f[1])
            saw_final_error = saw_final_error or k > len(items)
        else:
            cnt, data, k = int(f[0]), (b'' if f[1] == '-' else bytes.fromhex(f[1])), int(f[2])
            if cnt != len(data) or cnt > n:
                return ('read-size', i, cnt, n)
            start = len(delivered)
            delivered += data
            if allbytes[:len(delivered)] != delivered:
                return ('bytes-differ-from-chunks', i, hexb(data)[:40])
            # release: everything handed out lies in chunks completed within the first k source calls
            released = sum(len(c) for c, done in chunks if done <= k)
            if len(delivered) > released:
                return ('released-before-end-of-chunk', i, len(delivered), released, k)
            # chunk aligned: a Read never spans two chunks
            if cnt > 0 and not any(lo <= start and start + cnt <= hi for lo, hi in bounds):
                return ('read-spans-chunks', i, start, cnt)
        if k < last_k:
            return ('receive-index-decreased', i)
        last_k = k
    if drained_expected and saw_final_error and not any(it is None for it in items) and delivered != allbytes:
        return ('bytes-lost', len(delivered), len(allbytes))
    done = [c for c, d in chunks if d <= last_k]
    if int(stats[1]) != len(done) % (1 << 64) or int(stats[2]) != sum(len(c) for c in done) % (1 << 64):
        return ('stats', stats[1:], len(done), sum(len(c) for c in done))
    return None


def gen_c15(rng, tier):
    cases = []     # (line, items, reads, kind, drained)
    stats = collections.Counter()
    # (a) exhaustive small spaces: (chunk lengths, max chunks, max messages per chunk)
    spaces = [((0, 1, 3), 3, 3)]
    if tier != 'quick':
        spaces += [((0, 1, 3), 4, 2), ((0, 1, 2, 3), 3, 3)]
    seen_lines = set()
    for lens, maxchunks, maxparts in spaces:
        per_chunk = [(L, sp) for L in lens for sp in compositions(L, maxparts)]
        def chunk_seqs(n):
            if n == 0:
                yield []
                return
            for rest in chunk_seqs(n - 1):
                for pc in per_chunk:
                    yield rest + [pc]
        for n in range(0, maxchunks + 1):
            for seq in chunk_seqs(n):
                g = ByteGen()
                items = []
                for L, sp in seq:
                    c = g.take(L)
                    for j, (a, b) in enumerate(sp):
                        items.append((c[a:b], j == len(sp) - 1))
                total = sum(L for L, _ in seq)
                for rs in (1, 2, 3, 7, 65536):
                    nreads = (total + rs - 1) // rs + n + 3
                    reads = [rs] * nreads
                    line = c15_case_line(items, reads)
                    if line in seen_lines:
                        continue
                    seen_lines.add(line)
                    cases.append((line, items, reads, 'exhaustive', True))
                    stats[f'exhaustive_chunks_{n}'] += 1
    # (b) random larger cases: sizes around the read buffer, empty chunks, error items, partial tail, mixed read sizes
    nrand = 60 if tier == 'quick' else 600
    for i in range(nrand):
        g = ByteGen()
        items = []
        budget = 260000
        for _ in range(1 + rng.below(7)):
            L = rng.choice([0, 0, 1, 2, 100, 4095, 4096, 65535, 65536, 65537, 70000, rng.below(3000), rng.below(3000)])
            if L > budget:
                L = rng.below(200)
            budget -= L
            c = g.take(L)
            cuts = sorted(rng.below(L + 1) for _ in range(rng.below(5)))
            pts = [0] + cuts + [L]
            for j in range(len(pts) - 1):
                items.append((c[pts[j]:pts[j + 1]], j == len(pts) - 2))
            if rng.chance(1, 12):
                items.append(None)
                stats['with_error_item'] += 1
        if rng.chance(1, 4):
            items.append((g.take(rng.below(50)), False))      # trailing message without end flag
            stats['with_partial_tail'] += 1
        total = sum(len(it[0]) for it in items if it)
        mode = rng.below(3)
        reads = []
        if mode == 0:
            rs = rng.choice([1 if total < 3000 else 4096, 7 if total < 20000 else 65536, 100, 4096, 65536, 1 << 20])
            reads = [rs] * (total // rs + len(items) + 4)
            drained = True
        else:
            left = total + 10
            while left > 0 and len(reads) < 4000:
                rs = rng.choice([0, 1, 2, 3, 7, 100, 4096, 65536, 65536, 1 << 20])
                if total > 30000 and rs < 100:
                    rs = 4096
                reads.append(rs)
                left -= rs
            reads += [65536] * (len(items) + 3)
            drained = True
            if mode == 2:
                reads = reads[:rng.below(len(reads)) + 1]          # reads stop early: prefix
                drained = False
        cases.append((c15_case_line(items, reads), items, reads, 'random', drained))
        stats['random'] += 1
    # (c) one chunk of 1 MiB (4 MiB - 1 KiB in thorough: about the gRPC message limit), cut in three
    big = (1 << 20) if tier == 'quick' else (4 << 20) - 1024
    g = ByteGen()
    c = g.take(big)
    items = [(c[:big // 3], False), (c[big // 3:big // 2], False), (c[big // 2:], True), (b'', True)]
    reads = [65536] * (big // 65536 + 5)
    cases.append((c15_case_line(items, reads), items, reads, 'large', True))
    stats['large_chunk'] += 1
    # (c2) a chunk of 1.25 MiB that travels in three messages, more than 1 MiB of it before the message that ends
    # the chunk, followed by 1.2 MiB of a chunk that is never ended: nothing of a chunk is handed out before its
    # last message has arrived, and nothing at all of the unfinished one
    K = 1024
    g = ByteGen()
    c, d = g.take(1280 * K), g.take(1200 * K)
    items = [(c[:600 * K], False), (c[600 * K:1100 * K], False), (c[1100 * K:], True), (d[:700 * K], False), (d[700 * K:], False)]
    for rs in (65536, 1 << 20):
        reads = [rs] * ((2480 * K) // rs + 8)
        cases.append((c15_case_line(items, reads), items, reads, 'large-split', True))
        stats['large_split_chunk'] += 1
    # (d) the writer: WriteChunk(header, content) sequences through the whole pipeline
    wr = []
    for i in range(80 if tier == 'quick' else 800):
        g = ByteGen()
        cs = []
        for _ in range(rng.below(6)):
            cs.append((g.take(rng.choice([0, 0, 1, 3, 12, rng.below(300)])), g.take(rng.choice([0, 0, 1, 5, 64, rng.below(5000)]))))
        total = sum(len(h) + len(c) for h, c in cs)
        rs = rng.choice([1, 2, 3, 7, 65536])
        reads = [rs] * ((total + rs - 1) // rs + len(cs) + 3)
        line = 'wr ' + ' '.join(f'{hexb(h)}:{hexb(c)}' for h, c in cs) + ' | ' + ' '.join(map(str, reads))
        wr.append((line, cs, reads))
        stats['writer_pipeline'] += 1
    # (e) the writer with large chunks: header+content exactly at, just below and just above multiples of
    # 1 MiB (a transport that cuts chunks into messages has its boundaries there), and two multi-megabyte
    # chunks with different content in a row (a reused message buffer must not alias the caller's data)
    M = 1 << 20
    big_specs = [(12, [M - 12]), (12, [M - 13]), (12, [M - 11, 40]), (7, [2 * M - 7, 100]), (5, [3 * M + 17, 3 * M + 900, 50])]
    if tier != 'quick':
        big_specs += [(0, [M]), (9, [M - 9, M - 9, M - 9]), (3, [4 * M - 3 - 1024]), (16, [M + 5, 2 * M - 16, M - 16, 7])]
    for hs, sizes in big_specs:
        g = ByteGen()
        cs = [(g.take(hs), g.take(n)) for n in sizes]
        total = sum(len(h) + len(c) for h, c in cs)
        reads = [65536] * (total // 65536 + len(cs) + 3)
        line = 'wr ' + ' '.join(f'{hexb(h)}:{hexb(c)}' for h, c in cs) + ' | ' + ' '.join(map(str, reads))
        wr.append((line, cs, reads))
        stats['writer_pipeline_large'] += 1
    return cases, wr, stats


def load_c15_corpus():
    """corpus/C15/cases.txt: former failing / hand-picked cases, run first"""
    cases, wr = [], []
    path = os.path.join(vlib.VERIF, 'corpus', 'C15', 'cases.txt')
    if not os.path.exists(path):
        return cases, wr
    for line in open(path):
        line = line.strip()
        if not line or line.startswith('#'):
            continue
        left, right = line.split('|', 1)
        toks, reads = left.split(), [int(x) for x in right.split()]
        unhex = lambda h: b'' if h == '-' else bytes.fromhex(h)
        if toks[0] == 'asm':
            items = [None if t == 'e' else (unhex(t.split(':')[1]), t.split(':')[2] == '1') for t in toks[1:]]
            cases.append((c15_case_line(items, reads), items, reads, 'corpus', False))
        elif toks[0] == 'wr':
            cs = [(unhex(t.split(':')[0]), unhex(t.split(':')[1])) for t in toks[1:]]
            wr.append(('wr ' + ' '.join(toks[1:]) + ' | ' + ' '.join(map(str, reads)), cs, reads))
    return cases, wr


def run_c15(rng, tier, verdict, counters, samples, seed):
    ok_go, log_go, gobin = build_go_test('grpc', 'go/grpc', '.', 'go/grpc/zz_verif_chunk_test.go', 'grpc_chunk_test.go')
    if not ok_go:
        verdict.violation(dict(broken='go test -c of go/grpc with the overlay harness failed', log=log_go[-3000:]),
                          'harness does not build against the working tree', no_input=True)
        return 0, 0, {}
    cases, wr, stats = gen_c15(rng, tier)
    corpus_cases, corpus_wr = load_c15_corpus()
    cases = corpus_cases + cases
    wr = corpus_wr + wr
    stats['corpus'] = len(corpus_cases) + len(corpus_wr)
    lines = [c[0] for c in cases] + [w[0] for w in wr]
    fin, fout = os.path.join(vlib.BUILD, 'c15_in.txt'), os.path.join(vlib.BUILD, 'c15_out.txt')
    open(fin, 'w').write('\n'.join(lines) + '\n')
    if os.path.exists(fout):
        os.remove(fout)
    rc, out = run_go_test(gobin, 'TestVerifC15', dict(VERIF_C15_IN=fin, VERIF_C15_OUT=fout))
    go = open(fout).read().split('\n')[:-1] if os.path.exists(fout) else []
    if rc != 0 or len(go) != len(lines):
        verdict.violation(dict(broken='go harness run failed', rc=rc, log=out[-2000:], got=len(go), want=len(lines)),
                          'harness crashed or produced a short output', no_input=True)
        return len(lines), 0, stats
    model = os.path.join(vlib.BUILD, 'net_driver')
    # the multi-megabyte writer cases are judged by the oracle alone (the extracted model works on lists
    # of byte values: minutes per case); the model gets an empty case in their place
    big_idx = {i for i, l in enumerate(lines) if len(l) > 1000000 and l.startswith('wr ')}
    rcm, mo = vlib.run_lines(model, [('wr  | 1' if i in big_idx else l) for i, l in enumerate(lines)], timeout=1800)
    if len(mo) != len(lines):
        verdict.violation(dict(broken='model driver output length', got=len(mo), want=len(lines)), 'model driver crashed', no_input=True)
        return len(lines), 0, stats
    how = 'printf "%s\\n" "<case>" > build/one.txt; cd /repo/go/grpc && VERIF_C15_IN=/verif/build/one.txt VERIF_C15_OUT=/dev/stdout /verif/build/go_grpc_verif.test -test.run TestVerifC15$ ; echo "<case>" | build/net_driver'
    distinct = set()
    for i, (line, items, reads, kind, drained) in enumerate(cases):
        g, m = go[i].strip(), mo[i].strip()
        if any(it and len(it[0]) for it in items):
            distinct.add(line if len(line) < 400 else hash(line))
        bad = c15_oracle(items, reads, g, drained) if not g.startswith('PANIC') else ('panic', g[:200])
        if bad:
            counters['oracle:' + bad[0]] += 1
            verdict.violation(dict(seed=seed, case=line[:4000], finding=list(map(str, bad)), implementation=g[:2000], model=m[:2000], how_to_run=how),
                              f'C15 {kind}: {bad[0]} {" ".join(map(str, bad[1:]))[:120]}')
            continue
        if g != m:
            counters['correspondence'] += 1
            tg, tm = g.split(' '), m.split(' ')
            k = next((j for j in range(min(len(tg), len(tm))) if tg[j] != tm[j]), min(len(tg), len(tm)))
            verdict.violation(dict(seed=seed, case=line[:4000], first_difference=dict(read=k, implementation=tg[k][:80] if k < len(tg) else None,
                                                                                       model=tm[k][:80] if k < len(tm) else None),
                                   broken='correspondence C15: chunkAssembler vs coq/Net/Chunk.v', how_to_run=how),
                              f'C15 {kind}: model and implementation disagree at Read #{k} (property holds on the observation)', no_input=True)
            continue
        counters['clean_' + kind] += 1
    base = len(cases)
    for j, (line, cs, reads) in enumerate(wr):
        g, m = go[base + j].strip(), mo[base + j].strip()
        distinct.add(line if len(line) < 400 else hash(line))
        bad = None
        if '|' not in g:
            bad = ('writer-output', g[:100])
        else:
            left, right = g.split('|', 1)
            msgs = left.split()
            want = [f'm:{hexb(h + c)}:1' for h, c in cs]
            split_differently = False
            if msgs != want:
                # the property: the bytes up to each end-of-chunk flag are the writer's chunk; whether a
                # chunk travels in one message or several is the implementation's business
                got_chunks, cur, items = [], b'', []
                try:
                    for mtxt in msgs:
                        _, hx, fl = mtxt.split(':')
                        bts = bytes.fromhex(hx) if hx not in ('', '-') else b''
                        items.append((bts, fl == '1'))
                        cur += bts
                        if fl == '1':
                            got_chunks.append(cur); cur = b''
                except ValueError:
                    items = None
                if items is None or cur or got_chunks != [h + c for h, c in cs]:
                    bad = ('writer-messages', [x[:40] for x in msgs[:3]], [x[:40] for x in want[:3]])
                else:
                    split_differently = True
                    bad = c15_oracle(items, reads, right.strip(), True)
            else:
                items = [(h + c, True) for h, c in cs]
                bad = c15_oracle(items, reads, right.strip(), True)
            if not bad and split_differently:
                counters['correspondence'] += 1
                verdict.violation(dict(seed=seed, case=line[:4000], implementation=g[:1500],
                                       broken='correspondence C15: grpcWriter cuts chunks into messages differently from the model (one message per chunk); the chunks and the released bytes are right', how_to_run=how),
                                  'C15 writer pipeline: messages differ from the model, property holds on the observation', no_input=True)
                continue
        if bad:
            counters['oracle:' + bad[0]] += 1
            verdict.violation(dict(seed=seed, case=line[:4000], finding=list(map(str, bad)), implementation=g[:2000], how_to_run=how),
                              f'C15 writer pipeline: {bad[0]}')
        elif (base + j) in big_idx:
            counters['clean_writer_large'] += 1
        elif g != m:
            counters['correspondence'] += 1
            verdict.violation(dict(seed=seed, case=line[:4000], implementation=g[:1500], model=m[:1500],
                                   broken='correspondence C15: grpcWriter + chunkAssembler vs model', how_to_run=how),
                              'C15 writer pipeline: model and implementation disagree', no_input=True)
        else:
            counters['clean_writer'] += 1
    for idx in (0, len(cases) // 2, len(cases) - 3, base + 1):
        samples.append(dict(case=lines[idx][:300], implementation=go[idx][:300]))
    return len(lines), len(distinct), stats


# ------------------------------------------------------------------------------ C16
def c16_case(cid, batches, steps, fails=(), fail_from=-1, family=''):
    return dict(id=cid, batches=[[n, o] for n, o in batches], fails=list(fails), fail_from=fail_from, steps=steps, family=family)


def st(op, **kw):
    return dict(op=op, **kw)


def gen_c16(rng, tier):
    scale = 1 if tier == 'quick' else 8
    cases = []
    # (a) the race: an ack and a bad-data report scheduled inside one tick period while the
    #     responder is busy; on release both select cases are ready
    for i in range(120 * scale):
        pre = [(1 + rng.below(6), 'o')] if rng.chance(3, 4) else []
        mid = [(1 + rng.below(6), 'p') for _ in range(1 + rng.below(2))]
        post = [(1 + rng.below(6), 'o') for _ in range(1 + rng.below(2))]
        if rng.chance(1, 4):
            post.append((1 + rng.below(4), 'p'))
        batches = pre + mid + post
        steps = []
        if pre:
            steps += [st('hold', k=0), st('batch'), st('waitsend', k=0)]
        steps += [st('batch') for _ in mid + post]
        steps += [st('sleep', ms=11 + rng.below(4)), st('release'), st('sleep', ms=12 + rng.below(15)), st('end')]
        cases.append(c16_case(f'race-{i}', batches, steps, family='race'))
    # (a2) a bad-data report is being sent (held) while the next batch is rejected and the one after
    #      it accepted: the ack of the later batch must not overtake the second bad-data report
    for i in range(40 * scale):
        pre = [(1 + rng.below(4), 'o')] if rng.chance(1, 3) else []
        a = [(1 + rng.below(6), 'p')]
        b = [(1 + rng.below(6), 'p') for _ in range(1 + rng.below(2))]
        c = [(1 + rng.below(6), 'o') for _ in range(1 + rng.below(2))]
        batches = pre + a + b + c
        k = 1 if pre else 0
        steps = []
        if pre:
            steps += [st('batch'), st('sleep', ms=12 + rng.below(4))]
        steps += [st('hold', k=k), st('batch'), st('waitsend', k=k)]
        steps += [st('batch') for _ in b + c]
        steps += [st('sleep', ms=11 + rng.below(4)), st('release'), st('sleep', ms=14 + rng.below(15)), st('end')]
        cases.append(c16_case(f'race2-{i}', batches, steps, family='race'))
    # (a3) two slow sends in a row: an ack is being sent while batch A is rejected and a tick passes (so
    #      the ticker branch may pick A up), then A's report is slow while B is rejected and C accepted
    for i in range(40 * scale):
        batches = [(1 + rng.below(4), 'o'), (1 + rng.below(6), 'p')] + [(1 + rng.below(6), 'p') for _ in range(1 + rng.below(2))] + \
                  [(1 + rng.below(6), 'o') for _ in range(1 + rng.below(2))]
        nb_c = len(batches) - 2
        steps = [st('hold', k=0), st('hold', k=1), st('batch'), st('waitsend', k=0), st('batch'), st('sleep', ms=11 + rng.below(5)),
                 st('release1', k=0), st('waitsend', k=1)] + [st('batch') for _ in range(nb_c)] + \
                [st('sleep', ms=11 + rng.below(4)), st('release'), st('sleep', ms=14 + rng.below(15)), st('end')]
        cases.append(c16_case(f'race3-{i}', batches, steps, family='race'))
    # (b) random scripts
    for i in range(150 * scale):
        nb = 1 + rng.below(8)
        batches = []
        for _ in range(nb):
            o = 'o' if rng.chance(13, 20) else ('p' if rng.chance(6, 7) else 't')
            batches.append((1 + rng.below(9), o))
        steps = []
        held = False
        for b in batches:
            if not held and rng.chance(1, 5):
                steps.append(st('hold', k=rng.below(4)))
                held = True
            steps.append(st('batch'))
            if rng.chance(1, 3):
                steps.append(st('sleep', ms=rng.choice([1, 3, 11, 13, 22])))
            if held and rng.chance(1, 3):
                steps.append(st('release'))
                held = False
        steps += [st('release'), st('sleep', ms=11 + rng.below(12)), st('end')]
        fails, ff = [], -1
        if rng.chance(1, 6):
            ff = rng.below(4)
        elif rng.chance(1, 12):
            fails = [rng.below(3)]
        cases.append(c16_case(f'rand-{i}', batches, steps, fails, ff, family='random'))
    # (c) channel capacity: the responder is held while more than badDataMaxBatchSize batches are rejected
    for i in range(12 * scale):
        n = 9 + rng.below(6)
        batches = [(1 + rng.below(3), 'o')] + [(1 + rng.below(3), 'p') for _ in range(n)] + [(2, 'o')]
        steps = [st('hold', k=0), st('batch'), st('waitsend', k=0)] + [st('batch') for _ in range(n + 1)]
        steps += [st('sleep', ms=11), st('release'), st('sleep', ms=25), st('batch'), st('sleep', ms=14), st('end')]
        cases.append(c16_case(f'full-{i}', batches, steps, family='channel_full'))
    # (d) plain sequences
    for i in range(30 * scale):
        kind = i % 3
        nb = 2 + rng.below(6)
        if kind == 0:
            batches = [(1 + rng.below(5), 'o') for _ in range(nb)]
        elif kind == 1:
            batches = [(1 + rng.below(5), 'p') for _ in range(nb)]
        else:
            batches = [(1 + rng.below(5), rng.choice(['o', 'p'])) for _ in range(nb)] + [(2, 't'), (3, 'o')]
        steps = []
        for _ in batches:
            steps.append(st('batch'))
            if rng.chance(1, 2):
                steps.append(st('sleep', ms=rng.choice([2, 11, 12])))
        steps += [st('sleep', ms=13), st('end')]
        cases.append(c16_case(f'plain-{i}', batches, steps, family='plain'))
    return cases


def parse_events(events):
    out = []
    for e in events:
        f = e.split(':')
        if f[0].startswith('c'):
            out.append(('c', int(f[0][1:]), f[1], int(f[2])))
        elif f[0] == 's':
            rs = [] if f[2] == '-' else [tuple(map(int, r.split('-'))) for r in f[2].split(',')]
            out.append(('s', int(f[1]), rs, f[3] == '1'))
    return out


def c16_oracle(case, res):
    """the property evaluated on the observed trace alone"""
    sizes = [b[0] for b in case['batches']]
    outs = [b[1] for b in case['batches']]
    ids, c0 = [], 0
    for n in sizes:
        ids.append((c0 + 1, c0 + n))
        c0 += n
    ev = parse_events(res['events'])
    consumed = []            # batch indices, in order
    reported = []            # ranges so far
    last_ok_ack = None
    sent_ranges = []
    for k, e in enumerate(ev):
        if e[0] == 'c':
            i = e[1]
            if i != len(consumed) or i >= len(sizes) or e[2] != outs[i]:
                return ('consumer-call-order', k, e)
            if e[3] != sizes[i]:
                return ('batch-record-count', k, e[3], sizes[i])
            consumed.append(i)
        else:
            _, ack, rs, ok = e
            # exact ranges, in order, none twice: the ranges sent so far are a prefix of the rejected batches' ranges
            sent_ranges += rs
            want = [ids[i] for i in consumed if outs[i] == 'p']
            if sent_ranges != want[:len(sent_ranges)]:
                return ('bad-range-not-exact-or-repeated', k, rs, want)
            if any(b > ack for _, b in rs):
                return ('range-beyond-ack-id', k, ack, rs)
            # soundness: every id up to ack belongs to a batch already handed to the consumer and
            # accepted, or lies in a range reported by now
            hi = ids[consumed[-1]][1] if consumed else 0
            if ack > hi:
                return ('ack-beyond-consumed', k, ack, hi)
            for i in consumed:
                lo_i, hi_i = ids[i]
                if lo_i > ack:
                    break
                if outs[i] == 'o':
                    if hi_i > ack and lo_i <= ack:
                        return ('ack-inside-batch', k, ack, ids[i])
                    continue
                upto = min(hi_i, ack)
                if not any(a <= lo_i and upto <= b for a, b in sent_ranges):
                    return ('ack-ahead-of-bad-data-report', k, ack, ids[i], outs[i])
            if ok:
                if last_ok_ack is not None and ack < last_ok_ack:
                    return ('ack-decreased', k, last_ok_ack, ack)
                last_ok_ack = ack
    # lockstep of the record counters
    cum, t = [], 0
    for n in sizes:
        t += n
        cum.append(t)
    if res.get('wcounts') != cum:
        return ('writer-record-count', res.get('wcounts'), cum)
    if res.get('rcounts') != list(range(1, t + 1)):
        return ('reader-record-count', (res.get('rcounts') or [])[-3:], t)
    if res.get('note'):
        return ('harness-note', res['note'])
    if res.get('ret') == 'hang':
        return ('onStream-did-not-return',)
    if 't' in [outs[i] for i in consumed] and res.get('ret') not in ('unavailable',):
        return ('transient-error-not-unavailable', res.get('ret'))
    return None


def model_line(case, res, cfg='current'):
    b = ','.join(f'{n}{o}' for n, o in case['batches']) or '-'
    if case['fail_from'] >= 0:
        f = f'from:{case["fail_from"]}'
    elif case['fails']:
        f = ','.join(map(str, case['fails']))
    else:
        f = '-'
    toks = []
    for e in parse_events(res['events']):
        if e[0] == 'c':
            toks.append(f'c{e[1]}:{e[2]}')
        else:
            rs = ','.join(f'{a}-{b_}' for a, b_ in e[2]) or '-'
            toks.append(f's:{e[1]}:{rs}:{1 if e[3] else 0}')
    return f'lts {cfg} {b} {f} | ' + ' '.join(toks)


def run_c16(rng, tier, verdict, counters, samples, seed):
    race = tier == 'thorough'
    ok_go, log_go, gobin = build_go_test('stefreceiver', 'otelcol', './internal/stefreceiver',
                                         'otelcol/internal/stefreceiver/zz_verif_responder_test.go', 'responder_test.go', race=race)
    if not ok_go and race:
        counters['race_build_unavailable'] += 1
        ok_go, log_go, gobin = build_go_test('stefreceiver', 'otelcol', './internal/stefreceiver',
                                             'otelcol/internal/stefreceiver/zz_verif_responder_test.go', 'responder_test.go')
    if not ok_go:
        verdict.violation(dict(broken='go test -c of otelcol/internal/stefreceiver with the overlay harness failed', log=log_go[-3000:]),
                          'harness does not build against the working tree', no_input=True)
        return 0, 0, {}, {}
    model = os.path.join(vlib.BUILD, 'net_driver')
    extra = {}
    # constants tie: channel capacity of the model = badDataMaxBatchSize of the code
    src = open(os.path.join(vlib.REPO, 'otelcol/internal/stefreceiver/internal/responder.go')).read()
    mcap = re.search(r'const\s+badDataMaxBatchSize\s*=\s*(\d+)', src)
    _, capout = vlib.run_lines(model, ['cap'])
    if not mcap or not capout or int(mcap.group(1)) != int(capout[0]):
        verdict.violation(dict(broken='constant tie: badDataMaxBatchSize', code=mcap.group(1) if mcap else None, model=capout[:1]),
                          'channel capacity of the model differs from the code (or cannot be read)', no_input=True)
    extra['channel_capacity'] = int(capout[0]) if capout else None
    # ---- writer / reader lockstep of RecordCount (the ids of C16 ARE these counters): histories under small
    # frame and dictionary limits and every restart flag, through the generated writer and reader
    try:
        import streamlib
        okw, logw, gow, schw, sjw = streamlib.build_otel()
        if okw:
            hw = streamlib.Harness('otel', schw, gow, sjw)
            lcases = []
            for i in range(16 if tier == 'quick' else 120):
                root = 'Metrics' if i % 2 == 0 else 'Spans'
                opts = dict(compression=rng.below(2), maxframe=rng.choice([1, 64, 300, 2000]), maxdict=rng.choice([0, 0, 64, 2000]),
                            flags=rng.choice([0, 0, 1, 4, 2]), descriptor=False, userdata={})
                lcases.append(dict(id=f'lockstep-{i}', root=root, opts=opts, ops=streamlib.gen_history(schw, root, rng, 3 + rng.below(25))))
            louts, _, _ = hw.run_go(lcases)
            for lc, lo in zip(lcases, louts):
                nw = sum(1 for op in lc['ops'] if op['op'] == 'w')
                nr = len((lo.get('read') or {}).get('recs') or [])
                if lo.get('panic') or lo.get('wcount') != nw or nr != nw:
                    counters['oracle:record-count-lockstep'] += 1
                    verdict.violation(dict(case=lc, writes=nw, writer_record_count=lo.get('wcount'), records_read=nr, panic=lo.get('panic'), frames=lo.get('frames')),
                                      f'C16 {lc["id"]}: {nw} records written, writer RecordCount()={lo.get("wcount")}, reader delivered {nr}')
                else:
                    counters['clean_lockstep'] += 1
    except Exception as ex:      # the sub-check must not hide the rest
        verdict.violation(dict(broken='C16 record-count lockstep sub-check could not run', error=repr(ex)), 'C16 lockstep sub-check failed to run', no_input=True)
    cases = gen_c16(rng, tier)
    # corpus: the schedule of the repaired defect D10 runs first, repeated (the branch is chosen by the Go runtime)
    corpus = json.load(open(os.path.join(vlib.VERIF, 'corpus', 'C16', 'd10.json')))
    reps = 40 if tier == 'quick' else 400
    cases = [dict(corpus['script'], id=f'corpus-d10-{i}', family='corpus_d10') for i in range(reps)] + cases
    # ... and on the model: the traces recorded from the pinned code are traces of cfg_pinned and NOT of cfg_current
    clines = [f'lts pinned {t}' for t in corpus['pinned_traces']] + [f'lts current {t}' for t in corpus['pinned_traces']] + \
             [f'lts current {t}' for t in corpus['current_traces']]
    _, co = vlib.run_lines(model, clines)
    np_ = len(corpus['pinned_traces'])
    want = ['accepted'] * np_ + ['rejected'] + ['rejected'] * (np_ - 1) + ['accepted'] * len(corpus['current_traces'])
    # the second recorded trace differs from the repaired behaviour only in the range start (5-10 vs 6-10): also rejected
    if len(co) != len(clines) or any(not o.startswith(w) for o, w in zip(co, want)):
        verdict.violation(dict(broken='corpus C16/d10.json: model verdicts on the recorded traces changed', lines=clines, got=co, want=want),
                          'recorded traces of defect D10 are no longer told apart by the model', no_input=True)
    extra['corpus_traces_checked'] = len(clines)
    fin, fout = os.path.join(vlib.BUILD, 'c16_in.jsonl'), os.path.join(vlib.BUILD, 'c16_out.jsonl')
    open(fin, 'w').write('\n'.join(json.dumps(c) for c in cases) + '\n')
    if os.path.exists(fout):
        os.remove(fout)
    rc, out = run_go_test(gobin, 'TestVerifC16', dict(VERIF_C16_IN=fin, VERIF_C16_OUT=fout), timeout=1800)
    results = [json.loads(l) for l in open(fout)] if os.path.exists(fout) else []
    if rc != 0 or len(results) != len(cases) or 'DATA RACE' in out:
        verdict.violation(dict(broken='go harness run failed' if 'DATA RACE' not in out else 'data race reported by the Go race detector',
                               rc=rc, log=out[-3000:], got=len(results), want=len(cases)),
                          'harness crashed, produced a short output, or the race detector fired', no_input='DATA RACE' not in out)
        return len(cases), 0, {}, extra
    mlines = [model_line(c, r) for c, r in zip(cases, results)]
    _, mo = vlib.run_lines(model, mlines, timeout=1800)
    if len(mo) != len(mlines):
        verdict.violation(dict(broken='model driver output length', got=len(mo), want=len(mlines)), 'model driver crashed', no_input=True)
        return len(cases), 0, {}, extra
    how = ('python3 -c "import json;print(json.dumps(json.load(open(\'<replay>\'))[\'case\']))" > build/one.jsonl; cd /repo/otelcol && '
           'VERIF_C16_IN=/verif/build/one.jsonl VERIF_C16_OUT=/dev/stdout /verif/build/go_stefreceiver_verif.test -test.run TestVerifC16$ '
           '(repeat: the schedule is chosen by the Go runtime); model: echo "<model_line>" | build/net_driver')
    stats = collections.Counter()
    distinct = set()
    accepted = 0
    for c, r, ml, m in zip(cases, results, mlines, mo):
        fam = c['family']
        stats['runs_' + fam] += 1
        ev = parse_events(r['events'])
        nsend = sum(1 for e in ev if e[0] == 's')
        if nsend:
            distinct.add((json.dumps(c['batches']), tuple(r['events'])))
        # which path did the schedule take? a bad-data response directly followed by an ack with no
        # consumer call between is (almost always) the drain inside the tick case
        for a, b in zip(ev, ev[1:]):
            if a[0] == 's' and b[0] == 's' and a[2] and not b[2]:
                stats['bad_then_ack_back_to_back'] += 1
                break
        if any(e[0] == 's' and len(e[2]) > 1 for e in ev):
            stats['response_with_several_ranges'] += 1
        if any(e[0] == 's' and not e[3] for e in ev):
            stats['runs_with_send_failure'] += 1
        stats['ret_' + str(r.get('ret'))] += 1
        bad = c16_oracle(c, r)
        if bad:
            counters['oracle:' + bad[0]] += 1
            verdict.violation(dict(seed=seed, case=c, observed=r, finding=list(map(str, bad)), model_line=ml, model=m, how_to_run=how),
                              f'C16 {c["id"]}: {bad[0]} on the observed response trace {" ".join(r["events"])[:160]}')
            continue
        if not m.startswith('accepted'):
            counters['trace_not_in_model'] += 1
            verdict.violation(dict(seed=seed, case=c, observed=r, model_line=ml, model=m,
                                   broken='trace inclusion C16: observed trace is not a trace of coq/Net/Responder.v (cfg_current)', how_to_run=how),
                              f'C16 {c["id"]}: the observed trace is not a trace of the model ({m[:120]}); the property holds on it', no_input=True)
            continue
        accepted += 1
        counters['clean_' + fam] += 1
    # bounded exploration of the model itself (all schedules of small scripts): the three history
    # properties hold in every reachable state of cfg_current and fail somewhere in cfg_pinned
    bmc_scripts = ['5p,5o -', '2o,3p,1p,2o -', '2o,3p,1p,2o,1t 1', '1p,1p,1o from:1', '3o,2p,2o,1p -'] + (['2o,3p,1p,2o,1p,4o -', '1p,1p,1p,1o,1p,1o from:2'] if tier == 'thorough' else [])
    blines = [f'bmc current {s}' for s in bmc_scripts] + [f'bmc pinned {bmc_scripts[0]}']
    _, bo = vlib.run_lines(model, blines, timeout=1800)
    states = trans = 0
    for line, o in zip(blines, bo):
        mm = re.match(r'states=(\d+) transitions=(\d+) mono_bad=(\d+) sound_bad=(\d+) range_bad=(\d+) stuck=(\d+)', o)
        if not mm:
            verdict.violation(dict(broken='model exploration failed', line=line, out=o[:300]), 'model exploration failed', no_input=True)
            continue
        s_, t_, mb, sb, rb, stuck = map(int, mm.groups())
        if line.startswith('bmc current'):
            states += s_; trans += t_
            if mb or sb or rb:
                verdict.violation(dict(broken='model exploration: a reachable state of cfg_current violates a history property (theorem vs executable definition)',
                                       line=line, out=o[:400]), 'model exploration contradicts the theorems', no_input=True)
        else:
            extra['pinned_model_violating_states'] = dict(mono=mb, sound=sb, range=rb)
            if not (mb and sb and rb):
                verdict.violation(dict(broken='model exploration: cfg_pinned no longer shows the recorded defect', out=o[:400]),
                                  'refutation witnesses no longer reproduce', no_input=True)
    extra.update(states=states, transitions=trans, traces_validated_against_impl=accepted)
    for fam in ('corpus_d10', 'race', 'random', 'channel_full', 'plain'):
        k = next((i for i, c in enumerate(cases) if c['family'] == fam), None)
        if k is not None:
            samples.append(dict(script=dict(batches=cases[k]['batches'], steps=[s['op'] + (':' + str(s.get('k', s.get('ms'))) if ('k' in s or 'ms' in s) else '') for s in cases[k]['steps']],
                                            fail_from=cases[k]['fail_from'], fails=cases[k]['fails']),
                                observed_trace=results[k]['events'], ret=results[k]['ret'], model=mo[k]))
    return len(cases), len(distinct), stats, extra


# ------------------------------------------------------------------------------ main
LEVEL_NOTES = {
    'C15': ['the message source is a list of (bytes, end flag) items with an error (io.EOF) after the last one; real gRPC framing, flow control and the 4 MiB message limit are not modelled (grpc-go trusted)',
            'Stats counters are uint64 in Go; the model computes modulo 2^64',
            'the sender in the code never splits a chunk (TODO in grpcWriter.WriteChunk); the receiver theorems cover every split'],
    'C16': ['which schedules the Go runtime produces is not modelled: the LTS offers every interleaving, the harness only samples (trace inclusion)',
            'record ids are N in the model, uint64 in Go (no wrap-around below 2^64 records)',
            'the ticker period (10 ms) is abstracted to "a tick may happen at any time"',
            'the harness observes consumer calls and SendDataResponse calls in the order they were entered; internal steps are hidden and searched by the model driver'],
}


class CappedVerdict(vlib.Verdict):
    """a broken implementation fails tens of thousands of cases: keep the first replays of every kind only"""
    CAP = 12
    def __init__(self, prop):
        super().__init__(prop)
        self.suppressed = 0
        self.kinds = collections.Counter()
    def violation(self, replay_obj, summary, no_input=False):
        kind = summary.split(':')[1][:40] if ':' in summary else summary[:40]
        self.kinds[kind] += 1
        if self.kinds[kind] > 3 or len(self.violations) >= self.CAP:
            self.suppressed += 1
            return
        super().violation(replay_obj, summary, no_input)


def main():
    prop = sys.argv[1]
    if prop not in ('C15', 'C16'):
        print(__doc__)
        sys.exit(2)
    seed, tier = vlib.seed_and_tier(sys.argv[2] if len(sys.argv) > 2 else 'quick')
    t0 = time.time()
    verdict = CappedVerdict(prop)
    net_errors = ensure_net_vo()
    info = vlib.proof_stage(prop, verdict)
    if net_errors:
        info['broken'] = net_errors + info['broken']
    ok_oc, log_oc = build_model()
    rng = SplitMix(seed)
    counters, samples = collections.Counter(), []
    evals = distinct = 0
    stats, extra = {}, {}
    if not ok_oc:
        verdict.violation(dict(broken='extraction/ocaml build of the net unit failed', log=log_oc[-3000:]), 'model does not extract', no_input=True)
    elif prop == 'C15':
        evals, distinct, stats = run_c15(rng, tier, verdict, counters, samples, seed)
    else:
        evals, distinct, stats, extra = run_c16(rng, tier, verdict, counters, samples, seed)
    if info['broken'] and not verdict.violations:
        verdict.violation(dict(broken=info['broken'], searched=f'{evals} cases, no failing input'),
                          'proof obligation no longer checks: ' + '; '.join(info['broken'])[:300], no_input=True)
    coverage = dict(info)
    coverage.pop('broken', None)
    coverage['checker_cmd'] = ('cd coq && for f in ' + ' '.join(NET_V) + f'; do coqc -R . Stef $f; done && coqc -R . Stef Props/{prop}.v   '
                               '(after integration: ' + info['checker_cmd'] + ')')
    coverage.update(dict(
        broken_obligations=info['broken'],
        trusted_base=vlib.TRUSTED_COMMON + [
            'go test -overlay: the harness file is compiled into the /repo package, nothing in /repo is edited',
            'grpc-go and protobuf (message framing, Send/Recv) are replaced by scripted fakes: trusted, not modelled',
        ] + (['ocaml/net_driver.ml: the search for a model run matching an observed trace (closure under hidden steps) is OCaml code around the extracted step function'] if prop == 'C16' else []),
        evaluations=evals, distinct_nontrivial=distinct,
        rule=('one evaluation = one case (message sequence + Read sizes) run on the real assembler and on the model; distinct by case text; non-trivial = carries at least one byte'
              if prop == 'C15' else
              'one evaluation = one scripted run of the real onStream + Responder.Run; distinct by (script, observed trace); non-trivial = at least one response was sent'),
        distribution=dict(stats), outcome_counts=dict(counters), samples=samples,
        exhaustive=(prop == 'C15')))
    if prop == 'C15':
        coverage['exhaustive_space'] = ('chunks of length 0/1/3, up to 3 chunks, every split into <= 3 messages (empty pieces included), read sizes 1/2/3/7/65536' + ('' if tier == 'quick' else '; plus up to 4 chunks with <= 2 messages each and lengths 0/1/2/3 with up to 3 chunks') + '; random larger cases are sampled')
    coverage.update(extra)
    coverage['violations_not_written_as_replay'] = verdict.suppressed
    rc = verdict.finish()
    vlib.write_evidence(prop, tier, seed, coverage, time.time() - t0, len(verdict.violations) + verdict.suppressed, LEVEL_NOTES[prop])
    sys.exit(rc)


if __name__ == '__main__':
    main()
