#!/usr/bin/env python3
"""C17 / C18 -- OTLP <-> STEF converters (go/pdata).   usage: check_otlp.py C17|C18 [quick|thorough]

Proof obligations: coq/Props/C17.v, coq/Props/C18.v over the model coq/Otlp/*.v.
Tie: (a) the variant of the model (record cfg of Otlp/ToStef.v) is selected by reading the
converter sources of /repo on every run (a tiny translator: which of the recorded defects are
repaired in the working tree); (b) the extracted model (ocaml/otlp_driver.ml) and the real
converters (harness_pdata/cmd, built from /repo's working tree) run on the same generated
batches and are compared on the written records and on the flattened result; (c) the property
oracle is evaluated on the Go observations alone.

Input line (both drivers):  <cfg> MB|TB <tokens>   -- tokens separated by one space
  str s<hex>  bytes y<hex>  uint u<dec>  int i<dec>  float f<16 hex of the bit pattern>  bool b0|b1
  value := e | str | b0|b1 | int | float | bytes | L n value*n | K n (str value)*n
  attrs := A n (str value)*n
  MB nres res*      res := R url:str dropped:u attrs nscope scope*
                    scope := S name version url dropped:u attrs nmetric metric*
                    metric := T name desc unit metadata:attrs kind npoints point*
                    kind := n | g | s temporality:u mono:b | h temporality:u | x temporality:u | y
     g/s point: P start ts flags val(e|int|float) attrs nex exemplar*
     h   point: H start ts flags count sum:opt min:opt max:opt nb u*nb nbounds f*nbounds attrs nex exemplar*
     x   point: X start ts flags count sum:opt min:opt max:opt scale:i zerocount zerothreshold:f
                posoff:i npos u* negoff:i nneg u* attrs nex exemplar*        opt := ~ | float
     y   point: Y start ts flags count sum:f nq (f f)*nq attrs
     exemplar:  Z ts val(e|int|float) traceid:y16 spanid:y8 attrs
  TB nres res*      scope := S name version url dropped attrs nspans span*
     span := N traceid:y16 spanid:y8 parent:y8 name flags start end kind tracestate:str attrs dropped
             statuscode statusmsg:str nev event* nlk link*
     event := V name time attrs dropped      link := L traceid spanid tracestate flags attrs dropped
  cfg := c + 7 bits: map_inc keep_empty summary_flag back_ex cmp_total cmp_dropped empty_hist
Output line: TAB separated key=payload; payload lists are space separated dumps (syntax of
harness/rt: {struct} <tag:oneof> [array] (k=v;multimap) b0 i-1 u1 f<16hex> s<hex>).
"""
import collections, hashlib, json, os, re, sys, time
sys.path.insert(0, os.path.dirname(os.path.abspath(__file__)))
import vlib
from vlib import SplitMix

VERIF, REPO, COQ, BUILD = vlib.VERIF, vlib.REPO, vlib.COQ, vlib.BUILD
OTLP_V = ['Otlp/OtlpBase.v', 'Otlp/PData.v', 'Otlp/Record.v', 'Otlp/Image.v', 'Otlp/ToStef.v',
          'Otlp/FromStef.v', 'Otlp/Traces.v', 'Otlp/OtlpBaseFacts.v', 'Otlp/ToStefFacts.v',
          'Otlp/FromStefFacts.v', 'Otlp/RoundTripFacts.v', 'Otlp/SortedFacts.v', 'Otlp/SortedRoundTripFacts.v',
          'Otlp/TracesFacts.v', 'Otlp/RefutedFacts.v']
NEGZ, POSZ = 'f8000000000000000', 'f0000000000000000'


# ---------------------------------------------------------------- build helpers
def compile_own_coq():
    """coqc our files, in dependency order, when the .vo is missing or older than its source or
    than an earlier file of the list (they are not in _CoqProject until integrated).
    Returns list of files that failed."""
    failed, newest = [], 0.0
    with vlib.Lock('coq_otlp'):
        for f in OTLP_V:
            src = os.path.join(COQ, f)
            if not os.path.exists(src):
                continue
            vo = src[:-2] + '.vo'
            newest = max(newest, os.path.getmtime(src))
            if os.path.exists(vo) and os.path.getmtime(vo) >= newest:
                continue
            rc, out = vlib.sh(f'timeout 900 coqc -R . Stef {f}', cwd=COQ, timeout=960)
            if rc != 0:
                failed.append(f)
                open(os.path.join(BUILD, 'coq_otlp.log'), 'a').write(f'--- {f}\n{out}\n')
                break
            newest = max(newest, os.path.getmtime(vo))
    return failed


def build_model():
    own = [os.path.join(COQ, f) for f in OTLP_V if os.path.exists(os.path.join(COQ, f)) and 'Facts' not in f]
    own += [os.path.join(COQ, 'Extract', 'ExtractOtlp.v'), os.path.join(VERIF, 'ocaml', 'otlp_driver.ml')]
    key = vlib._hash_files(own)
    mine = os.path.join(BUILD, 'ocaml_otlp.own')
    if not os.path.exists(mine) or open(mine).read() != key:
        try:
            os.remove(os.path.join(BUILD, 'ocaml_otlp.stamp'))
        except OSError:
            pass
    ok, log = vlib.ocaml_build_unit('otlp', 'ExtractOtlp.v', ('otlp_driver',))
    if ok:
        open(mine, 'w').write(key)
    return ok, log, os.path.join(BUILD, 'otlp_driver')


def build_go():
    h = os.path.join(VERIF, 'harness_pdata')
    ov = os.path.join(BUILD, 'overlay_pdata.json')
    vlib.write_if_changed(ov, json.dumps({'Replace': {
        os.path.join(REPO, 'go/pdata/metrics/zz_verif_export.go'): os.path.join(h, 'overlay/metrics_export.go')}}))
    out_bin = os.path.join(BUILD, 'go_pdata')
    with vlib.Lock('go'):
        vlib.sh(f'cp {REPO}/go/pdata/go.sum {h}/go.sum 2>/dev/null; true')
        rc, out = vlib.sh(f'go build -overlay {ov} -tags verif -o {out_bin} ./cmd', cwd=h, env=vlib.GOENV, timeout=900)
    return rc == 0, out, out_bin


# ---------------------------------------------------------------- which variant is the working tree?
def func_body(src, name):
    m = re.search(r'^func (?:\([^)]*\) )?' + re.escape(name) + r'\(', src, re.M)
    if not m:
        return None
    i = src.index('{', m.end())
    depth, j = 0, i
    while j < len(src):
        if src[j] == '{':
            depth += 1
        elif src[j] == '}':
            depth -= 1
            if depth == 0:
                return src[i:j + 1]
        j += 1
    return None


def read_variant():
    """reads the converter sources; returns (cfg dict, notes). A construct that is no longer
    recognisable is reported in notes and the repaired variant is assumed (the correspondence then
    shows the difference)."""
    def rd(p):
        try:
            return open(os.path.join(REPO, p)).read()
        except OSError:
            return ''
    notes = []
    cfg = collections.OrderedDict()
    b = func_body(rd('go/pdata/internal/otlptools/otlpval2tef.go'), 'otlpValueToTefAnyValue')
    if b and 'case pcommon.ValueTypeMap:' in b:
        mp = b[b.index('case pcommon.ValueTypeMap:'):]
        mp = mp[:mp.index('default:')] if 'default:' in mp else mp
        cfg['map_inc'] = bool(re.search(r'\bi\+\+|\bi \+= 1|\bi = i \+ 1', mp))
    else:
        cfg['map_inc'] = True; notes.append('otlpValueToTefAnyValue: Map case not found')
    b = func_body(rd('go/pdata/metrics/sortedbymetric/converter.go'), 'covertNumberDataPoints')
    if b:
        cfg['keep_empty'] = not re.search(r'NumberDataPointValueTypeEmpty\s*\{\s*continue', b)
    else:
        cfg['keep_empty'] = True; notes.append('covertNumberDataPoints not found')
    b = func_body(rd('go/pdata/metrics/internal/baseotlptostef.go'), 'ConvertSummary')
    cfg['summary_flag'] = bool(b and 'NoRecordedValue()' in b)
    if not b:
        notes.append('ConvertSummary not found')
    b = func_body(rd('go/pdata/metrics/internal/basesteftotolp.go'), 'convertNumberPoint')
    if b and 'case otelstef.PointValueTypeNone:' in b:
        blk = b[b.index('case otelstef.PointValueTypeNone:'):]
        blk = blk[:blk.index('default:')] if 'default:' in blk else blk
        cfg['back_ex'] = 'return nil' not in blk
    else:
        cfg['back_ex'] = True; notes.append('convertNumberPoint: None case not found')
    b = func_body(rd('go/pdata/internal/otlptools/compare.go'), 'CmpVal')
    cfg['cmp_total'] = bool(b and 'ValueTypeDouble' in b and 'ValueTypeBytes' in b and 'ValueTypeMap' in b)
    b = func_body(rd('go/pdata/internal/otlptools/compare.go'), 'CmpResourceSpans')
    b2 = func_body(rd('go/pdata/internal/otlptools/compare.go'), 'CmpScopeSpans')
    cfg['cmp_dropped'] = bool(b and b2 and 'DroppedAttributesCount' in b and 'DroppedAttributesCount' in b2)
    b = func_body(rd('go/pdata/metrics/internal/baseotlptostef.go'), 'ConvertHistogram')
    cfg['empty_hist'] = bool(b and re.search(r'BucketCounts\(\)\.Len\(\) (?:!=|==|>) 0', b))
    return cfg, notes


def cfg_token(cfg):
    return 'c' + ''.join('1' if v else '0' for v in cfg.values())


# ---------------------------------------------------------------- generator
F_SPECIAL = [0x0000000000000000, 0x3FF0000000000000, 0xBFF8000000000000, 0x7FF0000000000000,
             0xFFF0000000000000, 0x7FF8000000000000, 0x7FF8000000000123, 0xFFF8000000000001,
             0x7FF0000000000001, 0x0000000000000001, 0x7FEFFFFFFFFFFFFF, 0x4059000000000000,
             0x3FB999999999999A, 0xC000000000000000]
I_SPECIAL = [0, 1, -1, 42, (1 << 63) - 1, -(1 << 63), 1 << 31, -(1 << 31) - 1, 255]
U_SPECIAL = [0, 1, 2, 1000, (1 << 64) - 1, 1 << 63, (1 << 63) - 1, 1700000000000000000, 1 << 32]
WORDS = ['', 'a', 'b', 'ab', 'cpu', 'host', 'k', 'k1', 'k2', 'z', 'A', 'a.b', 'hé', 'x y', '世']


def hx(s):
    return (s if isinstance(s, bytes) else s.encode()).hex()


class Gen:
    def __init__(self, rng, negzero=False, rich=True):
        self.r = rng
        self.negzero = negzero
        self.stats = collections.Counter()
        self.expect_err = None
        self.rich = rich

    def s(self):
        r = self.r
        if r.chance(3, 4):
            return 's' + hx(r.choice(WORDS))
        return 's' + bytes(97 + r.below(4) for _ in range(r.below(5))).hex()

    def u(self, small=False):
        r = self.r
        if small or r.chance(1, 2):
            return 'u%d' % r.below(6)
        if r.chance(1, 2):
            return 'u%d' % r.choice(U_SPECIAL)
        return 'u%d' % (r.next() >> r.below(64))

    def u32(self):
        r = self.r
        return 'u%d' % (r.choice([0, 0, 1, 2, 7, (1 << 32) - 1]) if r.chance(3, 4) else r.below(1 << 32))

    def fbits(self):
        r = self.r
        if self.negzero and r.chance(1, 3):
            self.stats['negzero'] += 1
            return 0x8000000000000000
        k = r.below(10)
        if k < 6:
            return r.choice(F_SPECIAL)
        if k < 8:
            return r.choice([0x3FF0000000000000, 0x4000000000000000, 0x0000000000000000])
        return r.next()

    def f(self):
        return 'f%016x' % self.fbits()

    def i(self):
        r = self.r
        if r.chance(2, 3):
            return 'i%d' % r.choice(I_SPECIAL)
        v = r.next() >> r.below(64)
        return 'i%d' % (v - (1 << 64) if v >= (1 << 63) else v)

    def i32(self):
        r = self.r
        return 'i%d' % r.choice([0, 1, -1, 5, -7, (1 << 31) - 1, -(1 << 31), r.below(1 << 16) - (1 << 15)])

    def keys(self, n):
        pool = ['a', 'b', 'k', 'k1', 'k2', 'z', 'host', '', 'A', 'cpu', 'm', 'zz']
        out = []
        while len(out) < n:
            k = self.r.choice(pool)
            if k not in out:
                out.append(k)
        return out

    def value(self, depth=0):
        r = self.r
        k = r.below(20 if depth < 3 else 12)
        if k < 1:
            return ['e']
        if k < 5:
            return [self.s()]
        if k < 6:
            return ['b%d' % r.below(2)]
        if k < 9:
            return [self.i()]
        if k < 11:
            self.stats['double_attr'] += 1
            return [self.f()]
        if k < 12:
            return ['y' + bytes(r.below(256) for _ in range(r.below(4))).hex()]
        if k < 15:
            n = r.below(4)
            self.stats['slice'] += 1
            out = ['L', str(n)]
            for _ in range(n):
                out += self.value(depth + 1)
            return out
        n = r.choice([0, 1, 2, 2, 3, 4])
        self.stats['map_%d' % min(n, 2)] += 1
        if depth > 0:
            self.stats['nested_map'] += 1
        out = ['K', str(n)]
        for key in self.keys(n):
            out += ['s' + hx(key)] + self.value(depth + 1)
        return out

    def attrs(self, maxn=4):
        r = self.r
        n = r.below(maxn + 1) if r.chance(3, 4) else 0
        out = ['A', str(n)]
        for key in self.keys(n):
            out += ['s' + hx(key)] + self.value(0)
        return out

    def ident_pool(self, mk, n):
        return [mk() for _ in range(n)]

    def res_id(self):
        return [self.s(), self.u32()] + self.attrs(3)

    def scope_id(self):
        return [self.s(), self.s(), self.s(), self.u32()] + self.attrs(2)

    def numval(self):
        k = self.r.below(7)
        if k == 0:
            self.stats['num_empty'] += 1
            return 'e'
        return self.i() if k < 4 else self.f()

    def opt(self):
        return '~' if self.r.chance(1, 3) else self.f()

    def flags(self):
        if self.r.chance(1, 6):
            self.stats['flagged'] += 1
            return 'u1'
        return 'u0'

    def exemplars(self):
        r = self.r
        n = r.choice([0, 0, 0, 1, 2, 3])
        out = [str(n)]
        for _ in range(n):
            self.stats['exemplar'] += 1
            tid = bytes(16) if r.chance(1, 8) else bytes(r.below(256) for _ in range(16))
            sid = bytes(8) if r.chance(1, 8) else bytes(r.below(256) for _ in range(8))
            out += ['Z', self.ts(), self.numval(), 'y' + tid.hex(), 'y' + sid.hex()] + self.attrs(2)
        return out

    def ts(self):
        r = self.r
        if r.chance(1, 2):
            return 'u%d' % r.below(4)          # ties and small values
        return self.u()

    def ulist(self, n):
        return [str(n)] + [self.u() for _ in range(n)]

    def point(self, kind, allow_bad):
        r = self.r
        self.stats['points'] += 1
        if kind in 'gs':
            return ['P', self.ts(), self.ts(), self.flags(), self.numval()] + self.attrs() + self.exemplars()
        if kind == 'h':
            fl = self.flags()
            nb = r.below(4)
            nbk = nb + 1
            if allow_bad and r.chance(1, 2):
                nbk = r.choice([nb, nb + 2, 0])
                if fl == 'u0' and nbk != nb + 1 and not (nbk == 0 and nb == 0):
                    self.expect_err = 'histogram bucket/bounds length'
            elif r.chance(1, 12):
                nb, nbk = 0, 0
                self.stats['bucketless_hist'] += 1
                if fl == 'u0':
                    self.bucketless = True
            self.stats['hist_bounds_%d' % nb] += 1
            return (['H', self.ts(), self.ts(), fl, self.u(), self.opt(), self.opt(), self.opt()] + self.ulist(nbk)
                    + [str(nb)] + [self.f() for _ in range(nb)] + self.attrs() + self.exemplars())
        if kind == 'x':
            return (['X', self.ts(), self.ts(), self.flags(), self.u(), self.opt(), self.opt(), self.opt(),
                     self.i32(), self.u(), self.f(), self.i32()] + self.ulist(r.below(4)) + [self.i32()]
                    + self.ulist(r.below(3)) + self.attrs() + self.exemplars())
        nq = r.below(4)
        out = ['Y', self.ts(), self.ts(), self.flags(), self.u(), self.f(), str(nq)]
        for _ in range(nq):
            out += [self.f(), self.f()]
        return out + self.attrs()

    def metrics_batch(self, size):
        r = self.r
        self.expect_err = None
        self.bucketless = False
        bad = r.chance(1, 14)
        res_pool = self.ident_pool(self.res_id, 1 + r.below(3))
        scope_pool = self.ident_pool(self.scope_id, 1 + r.below(3))

        def metric_id():
            kind = r.choice(['g', 'g', 's', 's', 'h', 'h', 'x', 'y'])
            return dict(hdr=[self.s(), self.s(), self.s()] + self.attrs(2), kind=kind,
                        temp=r.below(3), mono=r.below(2))
        metric_pool = [metric_id() for _ in range(1 + r.below(4))]
        if r.chance(1, 3) and len(metric_pool) > 1:      # same identity, other type / temporality
            m = dict(metric_pool[0])
            m['kind'] = r.choice(['g', 's', 'h', 'x', 'y'])
            m['temp'] = r.below(3)
            metric_pool.append(m)
        out = ['MB']
        nres = r.choice([0, 1, 1, 2, 2, 3, 4]) if size > 1 else 1
        out.append(str(nres))
        for _ in range(nres):
            out += ['R'] + r.choice(res_pool)
            nsc = r.choice([0, 1, 1, 2, 3])
            out.append(str(nsc))
            for _ in range(nsc):
                out += ['S'] + r.choice(scope_pool)
                nm = r.choice([0, 1, 2, 2, 3, 4])
                out.append(str(nm))
                for _ in range(nm):
                    m = r.choice(metric_pool)
                    out += ['T'] + m['hdr']
                    kind = m['kind']
                    if bad and r.chance(1, 6):
                        out += ['n', '0']
                        self.expect_err = self.expect_err or 'metric without type'
                        continue
                    temp = m['temp']
                    if bad and kind in 'shx' and r.chance(1, 6):
                        temp = 3 + r.below(3)
                        self.expect_err = self.expect_err or 'unknown temporality'
                    if kind == 's':
                        out += ['s', 'u%d' % temp, 'b%d' % m['mono']]
                    elif kind in 'hx':
                        out += [kind, 'u%d' % temp]
                    else:
                        out += [kind]
                    self.stats['metric_' + kind] += 1
                    npnt = r.choice([0, 1, 1, 2, 3, 4, 5]) if size > 1 else 1 + r.below(2)
                    out.append(str(npnt))
                    for _ in range(npnt):
                        out += self.point(kind, bad)
        return out

    # ---- traces
    def span(self, trace_pool):
        r = self.r
        self.stats['spans'] += 1
        tid = r.choice(trace_pool)
        sid = bytes(8) if r.chance(1, 10) else bytes(r.below(256) for _ in range(8))
        pid = bytes(8) if r.chance(1, 3) else bytes([r.below(3)] * 8)
        out = ['N', 'y' + tid.hex(), 'y' + sid.hex(), 'y' + pid.hex(), self.s(), self.u32(), self.ts(), self.ts(),
               'u%d' % r.below(6), self.s()] + self.attrs(4) + [self.u32(), 'u%d' % r.below(3), self.s()]
        nev = r.choice([0, 0, 1, 2, 3, 4])
        out.append(str(nev))
        self.stats['events_%d' % min(nev, 3)] += 1
        for _ in range(nev):
            out += ['V', self.s(), self.ts()] + self.attrs(2) + [self.u32()]
        nlk = r.choice([0, 0, 1, 2, 3])
        out.append(str(nlk))
        self.stats['links_%d' % min(nlk, 3)] += 1
        for _ in range(nlk):
            ltid = bytes(16) if r.chance(1, 8) else bytes(r.below(256) for _ in range(16))
            lsid = bytes(8) if r.chance(1, 8) else bytes(r.below(256) for _ in range(8))
            out += ['L', 'y' + ltid.hex(), 'y' + lsid.hex(), self.s(), self.u32()] + self.attrs(2) + [self.u32()]
        return out

    def traces_batch(self, size):
        r = self.r
        res_pool = self.ident_pool(self.res_id, 1 + r.below(3))
        scope_pool = self.ident_pool(self.scope_id, 1 + r.below(3))
        if r.chance(1, 4):          # same identity, other dropped count (sorted mode must not merge them)
            x = list(res_pool[0]); x[1] = 'u%d' % (int(x[1][1:]) ^ 1); res_pool.append(x)
            self.stats['res_differs_in_dropped'] += 1
        if r.chance(1, 4):
            x = list(scope_pool[0]); x[3] = 'u%d' % (int(x[3][1:]) ^ 1); scope_pool.append(x)
            self.stats['scope_differs_in_dropped'] += 1
        if r.chance(1, 3):
            # identities that differ ONLY in one double attribute: NaN / another NaN payload / an ordinary
            # value, +0.0 / -0.0 (sorted mode compares attribute values: it must keep them apart)
            pairs = [('7ff8000000000001', '3ff0000000000000'), ('7ff8000000000001', '7ff8000000000002'),
                     ('0000000000000000', '8000000000000000'), ('7ff8000000000001', '7ff0000000000000')]
            a, b = r.choice(pairs)
            base = [self.s(), self.u32()]
            mk = lambda fb: ['A', '2', 's' + hx('k'), 'f' + fb, 's' + hx('z'), 's' + hx('v')]
            res_pool += [base + mk(a), base + mk(b)]
            sb = [self.s(), self.s(), self.s(), self.u32()]
            scope_pool += [sb + mk(a), sb + mk(b)]
            self.stats['identities_differ_in_special_double'] += 1
        trace_pool = [bytes(16), bytes([1] * 16)] + [bytes(r.below(256) for _ in range(16)) for _ in range(2)]
        out = ['TB']
        nres = r.choice([0, 1, 2, 2, 3, 4, 5]) if size > 1 else 1
        out.append(str(nres))
        for _ in range(nres):
            out += ['R'] + r.choice(res_pool)
            nsc = r.choice([0, 1, 2, 2, 3])
            out.append(str(nsc))
            for _ in range(nsc):
                out += ['S'] + r.choice(scope_pool)
                nsp = r.choice([0, 1, 2, 3, 4]) if size > 1 else 1 + r.below(2)
                out.append(str(nsp))
                for _ in range(nsp):
                    out += self.span(trace_pool)
        return out


# ---------------------------------------------------------------- dump helpers
def split_top(s):
    """fields of '{a,b,...}' at nesting depth 1"""
    assert s[0] == '{' and s[-1] == '}', s[:40]
    out, depth, cur = [], 0, []
    for ch in s[1:-1]:
        if ch in '{[(<':
            depth += 1
        elif ch in '}])>':
            depth -= 1
        if ch == ',' and depth == 0:
            out.append(''.join(cur)); cur = []
        else:
            cur.append(ch)
    out.append(''.join(cur))
    return out


def sections(line):
    d = collections.OrderedDict()
    for s in line.split('\t'):
        k, _, v = s.partition('=')
        d[k] = v
    return d


def lst(s):
    return s.split(' ') if s else []


def tie_canon(recs):
    """the sorting converter orders points of one leaf by timestamp with an unstable sort: records
    that agree on metric, resource, scope, attributes and timestamp are compared as a set"""
    out, run, key = [], [], None
    for r in recs:
        f = split_top(r)
        k = (f[0], f[1], f[2], f[3], split_top(f[4])[1])
        if k != key:
            out += sorted(run); run = []; key = k
        run.append(r)
    return out + sorted(run)


def grouped_ok(recs):
    """oracle of the sorting converter's own contract: each (metric, resource, scope, attrs) key
    occupies one contiguous run, timestamps inside a run do not decrease"""
    seen, key, last = set(), None, None
    for r in recs:
        f = split_top(r)
        k = (f[0], f[1], f[2], f[3])
        ts = int(split_top(f[4])[1][1:])
        if k != key:
            if k in seen:
                return False
            seen.add(k); key = k; last = ts
        else:
            if ts < last:
                return False
            last = ts
    return True


def negz_in_dict_attr(line):
    """is there a -0.0 inside the attributes of a resource, a scope or a metric's metadata?"""
    try:
        tree = parse_tree(line.split(' '))
    except Exception:
        return False
    def has(x):
        return NEGZ in unparse(x, [])
    for res in tree[2]:
        if has(res[3]):
            return True
        for sc in res[4]:
            if has(sc[5]):
                return True
            if tree[1] == 'MB':
                for m in sc[6]:
                    if has(m[4]):
                        return True
    return False


def nz(s):
    return s.replace(NEGZ, POSZ)


def st(s):
    return (s or '').split(':')[0]


def msg(s):
    try:
        return bytes.fromhex((s or '').split(':', 1)[1]).decode('utf-8', 'replace')
    except Exception:
        return s


# ---------------------------------------------------------------- comparison
def first_diff(a, b):
    a, b = list(a), list(b)
    for i, (x, y) in enumerate(zip(a, b)):
        if x != y:
            return dict(index=i, implementation=x[:1500], expected=y[:1500])
    return dict(index=min(len(a), len(b)), implementation_len=len(a), expected_len=len(b))


def eval_metrics(G, M, exp_err, cfgd, normalised=False):
    """returns list of (kind, key, detail) problems; kind in corr | oracle"""
    probs = []
    def corr(key, g, m):
        if g != m:
            probs.append(('corr', key, first_diff(g, m)))
    corr('in.count', [G.get('in.count')], [M.get('in.count')])
    corr('in.flat', lst(G.get('in.flat')), lst(M.get('in.flat')))
    flat_in = lst(G.get('in.flat'))
    n_in = int(G.get('in.count') or -1)
    for p in ('u.', 's.'):
        gs, ms = st(G.get(p + 'status')), st(M.get(p + 'status'))
        corr(p + 'status', [gs], [ms])
        # oracle: a batch is refused exactly when it contains something the converter documents as unsupported
        if gs != 'ok':
            if gs == 'panic' or not exp_err:
                probs.append(('oracle', p + 'status', dict(implementation=gs + ': ' + str(msg(G.get(p + 'status'))),
                                                           expected='ok')))
            continue
        if exp_err:
            probs.append(('oracle', p + 'status', dict(implementation='ok', expected='error: ' + exp_err)))
        if ms != 'ok':
            continue
        grecs, mrecs = lst(G.get(p + 'recs')), lst(M.get(p + 'recs'))
        corr(p + 'n', [G.get(p + 'n')], [M.get(p + 'n')])
        if p == 'u.':
            corr(p + 'recs', grecs, mrecs)
        else:
            corr(p + 'recs', tie_canon(grecs), tie_canon(mrecs))
            if not normalised and not grouped_ok(grecs):   # after -0 -> +0 distinct keys print alike
                probs.append(('oracle', 's.recs grouping', dict(implementation='a key is split over several runs or timestamps decrease')))
        corr(p + 'bstatus', [st(G.get(p + 'bstatus'))], [st(M.get(p + 'bstatus'))])
        gfu, gfs = lst(G.get(p + 'fu')), lst(G.get(p + 'fs'))
        if p == 'u.':
            corr(p + 'fu', gfu, lst(M.get(p + 'fu')))
        else:
            corr(p + 'fu', tie_canon_flat(gfu, grecs), tie_canon_flat(lst(M.get(p + 'fu')), mrecs))
        corr(p + 'fs', sorted(gfs), sorted(lst(M.get(p + 'fs'))))
        # ---- oracle on the implementation alone
        if int(G.get(p + 'n') or -1) != n_in or len(grecs) != n_in:
            probs.append(('oracle', p + 'count', dict(implementation=f'{G.get(p + "n")} records written, {len(grecs)} read',
                                                      expected=f'{n_in} data points')))
        if st(G.get(p + 'bstatus')) != 'ok':
            probs.append(('oracle', p + 'bstatus', dict(implementation=G.get(p + 'bstatus')[:40] + ' ' + str(msg(G.get(p + 'bstatus'))))))
            continue
        if p == 'u.' and gfu != flat_in:
            probs.append(('oracle', 'u.fu list', first_diff(gfu, flat_in)))
        elif sorted(gfu) != sorted(flat_in):
            probs.append(('oracle', p + 'fu multiset', first_diff(sorted(gfu), sorted(flat_in))))
        if sorted(gfs) != sorted(flat_in):
            probs.append(('oracle', p + 'fs multiset', first_diff(sorted(gfs), sorted(flat_in))))
        # modified flags must announce every change of metric / resource / scope
        fl = lst(G.get(p + 'flags'))
        prev = None
        for k, r in enumerate(grecs):
            f = split_top(r)
            if prev is not None and k < len(fl):
                bits = int(fl[k])
                for bit, idx, nm in ((1, 0, 'metric'), (2, 1, 'resource'), (4, 2, 'scope')):
                    if not bits & bit and f[idx] != prev[idx]:
                        probs.append(('oracle', p + 'flags', dict(record=k, field=nm, implementation='changed but not flagged modified')))
            prev = f
    return probs


def tie_canon_flat(flat, recs):
    """way back of the sorted stream keeps record order: apply the same tie classes"""
    if len(flat) != len(recs):
        return flat
    out, run, key = [], [], None
    for r, p in zip(recs, flat):
        f = split_top(r)
        k = (f[0], f[1], f[2], f[3], split_top(f[4])[1])
        if k != key:
            out += sorted(run); run = []; key = k
        run.append(p)
    return out + sorted(run)


def eval_traces(G, M):
    probs = []
    def corr(key, g, m):
        if g != m:
            probs.append(('corr', key, first_diff(g, m)))
    corr('in.count', [G.get('in.count')], [M.get('in.count')])
    corr('in.img', lst(G.get('in.img')), lst(M.get('in.img')))
    corr('in.imgs', lst(G.get('in.imgs')), lst(M.get('in.imgs')))
    n_in = int(G.get('in.count') or -1)
    img, imgs = lst(G.get('in.img')), lst(G.get('in.imgs'))
    for p in ('u.', 's.'):
        gs, ms = st(G.get(p + 'status')), st(M.get(p + 'status'))
        corr(p + 'status', [gs], [ms])
        if gs != 'ok':
            probs.append(('oracle', p + 'status', dict(implementation=gs + ': ' + str(msg(G.get(p + 'status'))), expected='ok')))
            continue
        grecs = lst(G.get(p + 'recs'))
        if ms == 'ok':
            corr(p + 'n', [G.get(p + 'n')], [M.get(p + 'n')])
            corr(p + 'recs', grecs, lst(M.get(p + 'recs')))
        if st(G.get(p + 'rstatus') or 'ok') != 'ok':
            probs.append(('oracle', p + 'rstatus', dict(implementation=str(msg(G.get(p + 'rstatus'))))))
            continue
        if int(G.get(p + 'n') or -1) != n_in or len(grecs) != n_in:
            probs.append(('oracle', p + 'count', dict(implementation=f'{G.get(p + "n")} records written, {len(grecs)} read',
                                                      expected=f'{n_in} spans')))
        if p == 'u.':
            if grecs != img:
                probs.append(('oracle', 'u.recs content', first_diff(grecs, img)))
        elif sorted(grecs) != sorted(imgs):
            probs.append(('oracle', 's.recs multiset', first_diff(sorted(grecs), sorted(imgs))))
    return probs


# ---------------------------------------------------------------- known findings
def load_findings(prop):
    out = [k for k in vlib.load_known() if k.get('property') == prop]
    p = os.path.join(VERIF, 'integration', 'otlp.json')
    if os.path.exists(p):
        have = {k.get('id') for k in out}
        for k in json.load(open(p)).get('known_findings', []):
            if k.get('property') == prop and k.get('id') not in have:
                out.append(k)
    return out


def match_known(prop, probs, line, G, M, findings, exp_err, gen_info):
    """returns the id of a recorded finding (status known) that explains ALL problems of the case,
    else None. Each matcher is a narrow predicate on the case."""
    known = {k['id']: k for k in findings if k.get('status') == 'known'}
    # float setters with != : the only differences are in the sign of a zero
    kid = prop + '-setter-negzero'
    if kid in known and NEGZ in line:
        Gn = sections(nz('\t'.join(f'{k}={v}' for k, v in G.items())))
        Mn = sections(nz('\t'.join(f'{k}={v}' for k, v in M.items())))
        p2 = eval_metrics(Gn, Mn, exp_err, None, normalised=True) if prop == 'C17' else eval_traces(Gn, Mn)
        if not p2:
            return kid
        # the same defect inside Clone(): stefToOtlpSorted keys its b-trees by clones in which -0.0 became
        # +0.0, so the next record with the same (bit-exact) key replaces the first group: points are lost,
        # but only on the grouping way back (keys u.fs / s.fs), everything else agrees after normalisation
        # -0.0 inside an attribute of a dictionary struct (Resource / Scope / Metric): the writer's dictionary
        # stores a clone with +0.0 under a bit-exact comparison, the same struct is added again and again while
        # refNum = tree length does not advance, writer and reader dictionaries drift apart and a later record
        # resolves to another struct. Matched only if every differing record differs in those fields alone.
        kid3 = prop + '-negzero-dict-desync'
        if kid3 in known and negz_in_dict_attr(line):
            def only_dict_fields(a, b, n_dict):
                if len(a) != len(b):
                    return False
                for x, y in zip(a, b):
                    if x != y:
                        fx, fy = split_top(x), split_top(y)
                        if fx[n_dict:] != fy[n_dict:]:
                            return False
                return True
            ok3 = all(p[1].split(' ')[0] in ('u.recs', 'u.fu', 'u.fs', 's.recs', 's.fu', 's.fs', 'u.flags', 's.flags') for p in p2) \
                and any(p[1] in ('u.recs', 's.recs') for p in p2)
            if prop == 'C17':
                ok3 = ok3 and only_dict_fields(lst(Gn.get('u.recs')), lst(Mn.get('u.recs')), 3) \
                    and only_dict_fields(tie_canon(lst(Gn.get('s.recs'))), tie_canon(lst(Mn.get('s.recs'))), 3)
            else:
                ok3 = ok3 and only_dict_fields(lst(Gn.get('u.recs')), lst(Mn.get('u.recs')), 2) \
                    and sorted(split_top(r)[2] for r in lst(Gn.get('s.recs'))) == sorted(split_top(r)[2] for r in lst(Mn.get('s.recs')))
            if ok3:
                return kid3
        kid2 = 'C17-negzero-group-key'
        if kid2 in known and all(p[1].split(' ')[0] in ('u.fs', 's.fs') for p in p2):
            short = [x for x in ('u.fs', 's.fs') if len(lst(G.get(x))) < len(lst(G.get('in.flat')))]
            if short and re.search(r'(?:s[0-9a-f]*|L \d+(?: \S+)*?) ' + NEGZ, line):
                return kid2
    kid = 'C17-bucketless-histogram'
    if kid in known and prop == 'C17' and gen_info.get('bucketless') and not exp_err:
        if all(p[1].endswith('status') and p[0] == 'oracle' for p in probs) and \
                all('invalid histogram, bucket counts len 0, bounds len 0' in str(p[2].get('implementation')) for p in probs):
            return kid
    return None


# ---------------------------------------------------------------- main
def main():
    if len(sys.argv) < 2 or sys.argv[1] not in ('C17', 'C18'):
        print(__doc__); sys.exit(2)
    prop = sys.argv[1]
    seed, tier = vlib.seed_and_tier(sys.argv[2] if len(sys.argv) > 2 else 'quick')
    t0 = time.time()
    verdict = vlib.Verdict(prop)
    failed_v = compile_own_coq()
    info = vlib.proof_stage(prop, verdict)
    if failed_v:
        info['broken'] = [f'file {f} does not check (build/coq_otlp.log)' for f in failed_v] + info['broken']
    info['checker_cmd'] = ('cd coq && for f in ' + ' '.join(OTLP_V) + f'; do coqc -R . Stef $f; done && coqc -R . Stef Props/{prop}.v')
    cfgd, notes = read_variant()
    ctok = cfg_token(cfgd)
    ok_oc, log_oc, model = build_model()
    ok_go, log_go, gobin = build_go()
    findings = load_findings(prop)
    rng = SplitMix(seed)
    n_cases = dict(quick=700, thorough=40000)[tier]
    cases, stats = [], collections.Counter()
    corpus_dir = os.path.join(VERIF, 'corpus', prop)
    corpus = []
    if os.path.isdir(corpus_dir):
        for fn in sorted(os.listdir(corpus_dir)):
            if fn.endswith('.txt'):
                for ln in open(os.path.join(corpus_dir, fn)):
                    ln = ln.strip()
                    if ln and not ln.startswith('#'):
                        corpus.append((fn, ln))
    for fn, ln in corpus:
        body = ln.split(' ', 1)[1] if ln[0] == 'c' else ln
        exp = None
        if '#' in body:
            body, _, tag = body.partition('#')
            body = body.strip()
            exp = tag.strip() if tag.strip().startswith('expect-err') else None
        cases.append(dict(line=ctok + ' ' + body, exp_err=exp, info=dict(corpus=fn, bucketless='bucketless' in fn)))
        stats['corpus'] += 1
    for k in range(n_cases):
        g = Gen(rng.fork(), negzero=(k % 8 == 7))
        size = 1 if k % 5 == 0 else 2
        toks = g.metrics_batch(size) if prop == 'C17' else g.traces_batch(size)
        cases.append(dict(line=ctok + ' ' + ' '.join(toks), exp_err=g.expect_err,
                          info=dict(bucketless=getattr(g, 'bucketless', False), negzero=g.stats.get('negzero', 0))))
        stats.update(g.stats)
        stats['expect_err'] += int(bool(g.expect_err))
        stats['negzero_cases'] += int(g.stats.get('negzero', 0) > 0)
    coverage = dict(info)
    outcome = collections.Counter()
    samples = []
    n_disagree = n_oracle = 0
    if not ok_go:
        verdict.violation(dict(broken='go build of harness_pdata against /repo failed', log=log_go[-3000:]),
                          'harness does not build against the working tree', no_input=True)
    elif not ok_oc:
        verdict.violation(dict(broken='extraction/ocaml build failed', log=log_oc[-3000:]), 'model does not extract', no_input=True)
    else:
        lines = [c['line'] for c in cases]
        _, go_out = vlib.run_lines(gobin, lines, timeout=1800)
        _, mo_out = vlib.run_lines(model, lines, timeout=1800)
        if len(go_out) != len(lines) or len(mo_out) != len(lines):
            verdict.violation(dict(broken='driver output length', go=len(go_out), model=len(mo_out), want=len(lines)),
                              'driver crashed', no_input=True)
        else:
            reported = collections.Counter()
            for c, gl, ml in zip(cases, go_out, mo_out):
                G, M = sections(gl), sections(ml)
                if 'parse' in G or 'parse-error' in M or 'driver-error' in M:
                    verdict.violation(dict(case=c['line'][:4000], go=gl[:300], model=ml[:300]), 'input not parsed', no_input=True)
                    continue
                probs = eval_metrics(G, M, c['exp_err'], cfgd) if prop == 'C17' else eval_traces(G, M)
                if not probs:
                    outcome['agree+holds' if not c['exp_err'] else 'agree+refused'] += 1
                    if len(samples) < 3 and len(c['line']) < 1500 and int(G.get('in.count') or 0) >= 2:
                        samples.append(dict(input=c['line'], records_written=G.get('u.n'), first_record=lst(G.get('u.recs'))[:1],
                                            flags=G.get('u.flags'), sorted_first_record=lst(G.get('s.recs'))[:1]))
                    continue
                kid = match_known(prop, probs, c['line'], G, M, findings, c['exp_err'], c['info'])
                if kid:
                    outcome['known:' + kid] += 1
                    kf = [k for k in findings if k['id'] == kid][0]
                    verdict.known_finding(kid, f'{kid}: {kf["what_fails"]}')
                    continue
                kinds = sorted(set(p[0] for p in probs))
                n_disagree += int('corr' in kinds)
                n_oracle += int('oracle' in kinds)
                outcome['+'.join(kinds)] += 1
                sig = (tuple(kinds), probs[0][1])
                reported[sig] += 1
                if reported[sig] > 3:
                    continue
                small = shrink_case(prop, c, gobin, model, sig, findings) if len(c['line']) < 60000 else c
                Gs, Ms = sections(vlib.run_lines(gobin, [small['line']])[1][0]), sections(vlib.run_lines(model, [small['line']])[1][0])
                ps = eval_metrics(Gs, Ms, small['exp_err'], cfgd) if prop == 'C17' else eval_traces(Gs, Ms)
                what = ('model and implementation differ on ' if probs[0][0] == 'corr' else 'property oracle fails on the implementation: ') + probs[0][1]
                verdict.violation(dict(seed=seed, tier=tier, cfg=dict(cfgd), input=small['line'], original_input_len=len(c['line']),
                                       problems=[dict(kind=k, key=key, detail=d) for k, key, d in (ps or probs)[:6]],
                                       broken=(info['broken'] or None),
                                       how_to_run=f"echo '<input>' | build/go_pdata ; echo '<input>' | build/otlp_driver"),
                                  what)
    if info['broken'] and not verdict.violations:
        verdict.violation(dict(broken=info['broken'], searched=f'{len(cases)} batches, model and implementation agree, oracle holds'),
                          'proof obligation no longer checks: ' + '; '.join(info['broken'])[:300], no_input=True)
    distinct = len(set(c['line'] for c in cases if re.search(r' [PHXYN] ', c['line'])))
    coverage.update(dict(
        trusted_base=vlib.TRUSTED_COMMON + [
            'variant selection tools/check_otlp.py:read_variant (reads go/pdata sources; which recorded defects are repaired)',
            'collector pdata library (pcommon.Map unique keys, MoveTo, Sort = sort.SliceStable), modernc b-tree, generated otelstef writer/reader (C01)',
            'harness_pdata/cmd: builds pdata from the token tree, flattens pdata independently of the converters'],
        model_variant=dict(cfgd), variant_notes=notes,
        evaluations=len(cases), distinct_nontrivial=distinct,
        rule='one case = one generated OTLP batch run through both converters (and the ways back) by the Go code and by the extracted model; '
             'distinct by input text; non-trivial = contains at least one data point / span',
        distribution=dict(stats), outcome_counts=dict(outcome), disagreements=n_disagree, oracle_failures=n_oracle,
        corpus_cases=len(corpus), samples=samples or [dict(input=cases[0]['line'][:1500])], exhaustive=False))
    coverage.pop('broken', None)
    coverage['broken_obligations'] = info['broken']
    rc = verdict.finish()
    vlib.write_evidence(prop, tier, seed, coverage, time.time() - t0, len(verdict.violations), ASSUME[prop])
    sys.exit(rc)


ASSUME = dict(
    C17=['the STEF stream between writer and reader carries the written records (C01); records are observed through the generated reader',
         'float setters of the generated code (!= comparison) are not modelled; their only effect, the sign of a zero, is matched as a known finding',
         'a batch the converter refuses with an error (metric without type, unknown temporality, bucket/bounds length mismatch) is outside the statement; that the refusal happens exactly then is checked',
         'data point flags other than NoRecordedValue, and keys left in spare slice capacity by the pinned map-index defect, are not modelled'],
    C18=['the STEF stream between writer and reader carries the written records (C01); records are observed through the generated reader',
         'OTLP dropped-events/links counts have no STEF field and are outside the statement',
         'sort.SliceStable is modelled as a stable insertion sort (identical comparisons only up to 20 elements)'])


# ---------------------------------------------------------------- shrinking
class SL(list):
    """a counted list of the token grammar whose elements may be dropped while shrinking"""


def parse_tree(toks):
    """token list -> nested lists; SL nodes serialise as '<count> items'. Bucket, bound and quantile
    lists stay atomic (dropping one changes whether the batch is acceptable)."""
    pos = [0]
    def nx():
        t = toks[pos[0]]; pos[0] += 1; return t
    def take(n):
        return [nx() for _ in range(n)]
    def value():
        t = nx()
        if t == 'L':
            n = int(nx()); return ['L', SL([value() for _ in range(n)])]
        if t == 'K':
            n = int(nx()); return ['K', SL([[nx(), value()] for _ in range(n)])]
        return [t]
    def attrs():
        assert nx() == 'A'
        n = int(nx()); return ['A', SL([[nx(), value()] for _ in range(n)])]
    def atomic_list():
        n = int(nx()); return [str(n)] + take(n)
    def exemplars():
        n = int(nx()); return SL([take(5) + [attrs()] for _ in range(n)])
    def point(kind):
        if kind in 'gs':
            return take(5) + [attrs(), exemplars()]
        if kind == 'h':
            return take(8) + atomic_list() + atomic_list() + [attrs(), exemplars()]
        if kind == 'x':
            return take(12) + atomic_list() + take(1) + atomic_list() + [attrs(), exemplars()]
        h = take(6); n = int(nx())
        return h + [str(n)] + take(2 * n) + [attrs()]
    def metric():
        h = take(4) + [attrs()]
        kind = nx()
        h.append(kind)
        if kind == 's':
            h += take(2)
        elif kind in 'hx':
            h += take(1)
        n = int(nx())
        return h + [SL([point(kind) for _ in range(n)])] if kind != 'n' else h + ['0']
    def event():
        return take(3) + [attrs()] + take(1)
    def link():
        return take(5) + [attrs()] + take(1)
    def span():
        h = take(10) + [attrs()] + take(3)
        ne = int(nx()); ev = SL([event() for _ in range(ne)])
        nl = int(nx()); lk = SL([link() for _ in range(nl)])
        return h + [ev, lk]
    def scope(leaf):
        h = take(5) + [attrs()]
        n = int(nx())
        return h + [SL([leaf() for _ in range(n)])]
    def res(leaf):
        h = take(3) + [attrs()]
        n = int(nx())
        return h + [SL([scope(leaf) for _ in range(n)])]
    head = take(2)
    leaf = metric if head[1] == 'MB' else span
    n = int(nx())
    tree = head + [SL([res(leaf) for _ in range(n)])]
    assert pos[0] == len(toks), (pos[0], len(toks))
    return tree


def unparse(x, out):
    if isinstance(x, SL):
        out.append(str(len(x)))
        for e in x:
            unparse(e, out)
    elif isinstance(x, list):
        for e in x:
            unparse(e, out)
    else:
        out.append(x)
    return out


def all_lists(x, acc):
    if isinstance(x, list):
        if isinstance(x, SL):
            acc.append(x)
        for e in x:
            all_lists(e, acc)
    return acc


def shrink_case(prop, c, gobin, model, sig, findings, budget=150):
    """greedy structural shrinking: drop resources / scopes / metrics / points / spans / events /
    links / exemplars / attribute entries / slice and map elements while the same problem remains"""
    def fails(line):
        g = vlib.run_lines(gobin, [line])[1]
        m = vlib.run_lines(model, [line])[1]
        if not g or not m:
            return False
        G, M = sections(g[0]), sections(m[0])
        if 'parse' in G or 'parse-error' in M or 'driver-error' in M:
            return False
        ps = eval_metrics(G, M, c['exp_err'], None) if prop == 'C17' else eval_traces(G, M)
        if not ps or (tuple(sorted(set(p[0] for p in ps))), ps[0][1]) != sig:
            return False
        return match_known(prop, ps, line, G, M, findings, c['exp_err'], c['info']) is None
    try:
        tree = parse_tree(c['line'].split(' '))
    except Exception:
        return c
    progress = True
    while progress and budget > 0:
        progress = False
        for l in all_lists(tree, []):
            i = 0
            while i < len(l) and budget > 0:
                e = l.pop(i)
                budget -= 1
                if fails(' '.join(unparse(tree, []))):
                    progress = True
                else:
                    l.insert(i, e)
                    i += 1
    return dict(c, line=' '.join(unparse(tree, [])))


if __name__ == '__main__':
    main()
