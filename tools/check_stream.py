#!/usr/bin/env python3
"""C01 / C02 — write/read round trip and wire format, on the OpenTelemetry schema (both roots).
usage: check_stream.py C01|C02 [quick|thorough]

C01 observables: records returned by the Go reader, root modified flags, terminal status,
  stability of retained values, record counters.  Oracle on the implementation alone:
  read == written, err == EOF, differing top-level field => modified flag.
C02 observables: bytes.  The model's independent decoder (coq/Stream, written from the spec)
  must decode the implementation's bytes to the written records; re-encoding the decoded syntax
  trees with the model encoder must give the same bytes (canonical encoding, dictionary
  reference whenever the value is in the dictionary); golden streams recorded at the pinned
  commit must keep decoding to their recorded dumps with the current reader and the model."""
import collections, glob, json, os, sys, time
sys.path.insert(0, os.path.dirname(os.path.abspath(__file__)))
import vlib, streamlib
from vlib import SplitMix
from streamlib import parse_model_line, strip_mask, mask_of, split_top


def scenarios(sch):
    """hand-built op sequences aimed at the writer-side mask logic (within-record sequences that
    value-mode histories cannot produce). Each has an id used to match known findings."""
    out = []
    # S1: oneof A -> B -> A inside one record (DESIGN D2)
    h = [3, ['5', None, None, None, ['1', '2']]]
    base = [[[]], ['6d', '', '', '2', [], [], '0', False], ['', [], '0'], ['', '', '', [], '0'], [],
            ['1', '2', h, []]]
    out.append(dict(id='S1-oneof-switch-back', root='Metrics', ops=[
        {'op': 'set', 'v': base}, {'op': 'w'},
        {'op': 'call', 'path': ['Point', 'Value'], 'm': 'SetInt64', 'args': ['i:7']},
        {'op': 'call', 'path': ['Point', 'Value'], 'm': 'SetType', 'args': [3]},
        {'op': 'w'}, {'op': 'f'}]))
    # S2: array shrink then regrow inside one record (DESIGN D3)
    span = [[[]], ['', [], '0'], ['', '', '', [], '0'],
            ['aa', 'bb', '', '', '0', '6e', '1', '10', '20', [], '0',
             [['6531', '111', [], '0'], ['6532', '222', [], '0']], [], ['', '0']]]
    out.append(dict(id='S2-array-regrow', root='Spans', ops=[
        {'op': 'set', 'v': span}, {'op': 'w'},
        {'op': 'call', 'path': ['Span', 'Events'], 'm': 'EnsureLen', 'args': [1]},
        {'op': 'call', 'path': ['Span', 'Events'], 'm': 'EnsureLen', 'args': [2]},
        {'op': 'call', 'path': ['Span', 'Events', 'At:1'], 'm': 'SetName', 'args': ['s:79']},
        {'op': 'w'}, {'op': 'f'}]))
    # S3: optional primitive Unset then Set to the same value (must round trip)
    out.append(dict(id='S3-optional-unset-set', root='Metrics', ops=[
        {'op': 'set', 'v': [[[]], ['6d', '', '', '2', [], [], '0', False], ['', [], '0'], ['', '', '', [], '0'], [],
                            ['1', '2', [3, ['5', '3ff0000000000000', None, None, []]], []]]}, {'op': 'w'},
        {'op': 'call', 'path': ['Point', 'Value', 'Histogram'], 'm': 'UnsetSum'},
        {'op': 'call', 'path': ['Point', 'Value', 'Histogram'], 'm': 'SetSum', 'args': ['f:3ff0000000000000']},
        {'op': 'w'},
        {'op': 'call', 'path': ['Point', 'Value', 'Histogram'], 'm': 'UnsetSum'},
        {'op': 'w'}, {'op': 'f'}]))
    # S4: multimap shrink / regrow inside one record, then change one value
    attrs = [['6b31', [1, '7631']], ['6b32', [3, '5']], ['6b33', [2, True]]]
    out.append(dict(id='S4-multimap-regrow', root='Metrics', ops=[
        {'op': 'set', 'v': [[[]], ['6d', '', '', '0', [], [], '0', False], ['', [], '0'], ['', '', '', [], '0'], attrs,
                            ['1', '2', [1, '4'], []]]}, {'op': 'w'},
        {'op': 'call', 'path': ['Attributes'], 'm': 'EnsureLen', 'args': [1]},
        {'op': 'call', 'path': ['Attributes'], 'm': 'EnsureLen', 'args': [3]},
        {'op': 'call', 'path': ['Attributes'], 'm': 'SetKey', 'args': [1, 's:6b32']},
        {'op': 'call', 'path': ['Attributes'], 'm': 'SetKey', 'args': [2, 's:6b33']},
        {'op': 'call', 'path': ['Attributes', 'Value:2'], 'm': 'SetBool', 'args': [True]},
        {'op': 'w'}, {'op': 'f'}]))
    # S5: float -0 over +0 and NaN payload change through the setter (DESIGN D1)
    out.append(dict(id='S5-float-signed-zero', root='Metrics', ops=[
        {'op': 'set', 'v': [[[]], ['6d', '', '', '0', [], [], '0', False], ['', [], '0'], ['', '', '', [], '0'], [],
                            ['1', '2', [2, '0000000000000000'], []]]}, {'op': 'w'},
        {'op': 'call', 'path': ['Point', 'Value'], 'm': 'SetFloat64', 'args': ['f:8000000000000000']},
        {'op': 'w'}, {'op': 'f'}]))
    out.append(dict(id='S6-float-nan-payload', root='Metrics', ops=[
        {'op': 'set', 'v': [[[]], ['6d', '', '', '0', [], [], '0', False], ['', [], '0'], ['', '', '', [], '0'], [],
                            ['1', '2', [2, '7ff8000000000001'], []]]}, {'op': 'w'},
        {'op': 'call', 'path': ['Point', 'Value'], 'm': 'SetFloat64', 'args': ['f:7ff8000000000002']},
        {'op': 'w'}, {'op': 'f'}]))
    # S7: a frozen dictionary struct followed by a non-frozen one that differs in a nested container
    r1 = ['75', [['6b', [1, '76']]], '3']
    r2 = ['75', [['6b', [1, '77']], ['6b32', [3, '5']]], '3']
    b7 = lambda r: [[[]], ['6d', '', '', '0', [], [], '0', False], r, ['', '', '', [], '0'], [], ['1', '2', [1, '4'], []]]
    out.append(dict(id='S7-frozen-then-unfrozen', root='Metrics', ops=[
        {'op': 'set', 'v': b7(r1), 'freeze': True}, {'op': 'w'},
        {'op': 'set', 'v': b7(r2), 'freeze': False}, {'op': 'w'}, {'op': 'f'}]))
    # S8: two dictionary structs that differ only in a NaN vs ordinary float attribute
    ra = ['75', [['6b', [4, '7ff8000000000001']]], '3']
    rb = ['75', [['6b', [4, '3ff0000000000000']]], '3']
    out.append(dict(id='S8-nan-dict-lookup', root='Metrics', ops=[
        {'op': 'set', 'v': b7(ra), 'freeze': True}, {'op': 'w'},
        {'op': 'set', 'v': b7(rb), 'freeze': True}, {'op': 'w'},
        {'op': 'set', 'v': b7(ra), 'freeze': True}, {'op': 'w'}, {'op': 'f'}]))
    # S9: a frozen dictionary struct replaced twice between two writes (fixed by 610661e): the second
    # replacement differs from the first only in one field, from the last written value in two
    rA, rB, rC = ['6b31', [], '204'], ['', [], '355'], ['', [], '30877976676352']
    out.append(dict(id='S9-dict-struct-replaced-twice', root='Metrics', ops=[
        {'op': 'set', 'v': b7(rA), 'freeze': True}, {'op': 'w'},
        {'op': 'set', 'v': b7(rB), 'freeze': True},
        {'op': 'set', 'v': b7(rC), 'freeze': True}, {'op': 'w'}, {'op': 'f'}]))
    # S10: an element created outside and handed over with Append, then modified through At(i)
    # (DESIGN D15: the appended struct keeps the parent link it was created with)
    span0 = [[[]], ['', [], '0'], ['', '', '', [], '0'],
             ['aa', 'bb', '', '', '0', '6e', '1', '10', '20', [], '0', [], [], ['', '0']]]
    out.append(dict(id='S10-append-then-modify', root='Spans', ops=[
        {'op': 'set', 'v': span0},
        {'op': 'call', 'path': ['Span', 'Events'], 'm': 'Append', 'args': ['new']},
        {'op': 'call', 'path': ['Span', 'Events', 'At:0'], 'm': 'SetName', 'args': ['s:61']},
        {'op': 'w'},
        {'op': 'call', 'path': ['Span', 'Events', 'At:0'], 'm': 'SetName', 'args': ['s:62']},
        {'op': 'w'}, {'op': 'f'}]))
    # S12: frozen dictionary structs that are handed to the record again as the SAME object after they were
    # written once (their modified marks are clear) while the writer's dictionaries have been reset, replacing a
    # value whose attribute array is shorter: the elements beyond the common length are key/value lists
    kvl = lambda s_: [6, [['6b', [1, s_]]]]
    rr = lambda *vals: ['', [['61', [5, [kvl(v) for v in vals]]]], '0']
    seq12 = [rr('70'), rr('70', '71'), rr('70', '72'), rr('70'), rr('70', '72'), rr('70', '71', '72'), rr('70'), rr('70', '71', '72')]
    for md in (1, 0):
        out.append(dict(id=f'S12-reused-frozen-grown-array-d{md}', root='Metrics', opts_extra={'maxdict': md, 'flags': 0 if md else 1},
                        ops=sum(([{'op': 'set', 'v': b7(r), 'freeze': True, 'reuse': True}, {'op': 'w'}] for r in seq12), []) + [{'op': 'f'}]))
    # S11: long strings in a string dictionary (4 KiB, just above it, 64 KiB and more): a long value written
    # again is a reference, and so is every value admitted after it
    for n in (4096, 4097, 5000, 70001):
        long1 = ('6c' * n)
        long2 = ('6c' * (n - 1)) + '6d'
        m11 = lambda name, unit: [[[]], [name, '', unit, '0', [], [], '0', False], r1, ['', '', '', [], '0'],
                                  [['6b', [1, name]]], ['1', '2', [1, '4'], []]]
        out.append(dict(id=f'S11-long-dict-strings-{n}', root='Metrics', ops=[
            {'op': 'set', 'v': m11(long1, '61')}, {'op': 'w'},
            {'op': 'set', 'v': m11('6161', '62')}, {'op': 'w'},
            {'op': 'set', 'v': m11(long1, '63')}, {'op': 'w'},
            {'op': 'set', 'v': m11(long2, '6161')}, {'op': 'w'},
            {'op': 'set', 'v': m11('6262', long2)}, {'op': 'w'},
            {'op': 'set', 'v': m11(long2, long1)}, {'op': 'w'}, {'op': 'f'}]))
    return out


def gen_cases(sch, rng, tier, h=None, prop='C01'):
    n_hist = 60 if tier == 'quick' else 700
    cases = []
    stats = collections.Counter()
    for i in range(n_hist):
        root = 'Metrics' if i % 2 == 0 else 'Spans'
        opts = streamlib.gen_opts(rng)
        nrec = 1 + rng.below(40 if tier == 'quick' else 80)
        big = rng.chance(1, 6)
        ops = streamlib.gen_history(sch, root, rng, nrec, big=big)
        transcode = rng.choice(['', '', 'all', 'odd', 'even', 'thirds'])
        fz = rng.chance(1, 2)          # all dictionary structs of a history frozen, or none (mixing: scenario S7)
        for op in ops:
            if op['op'] == 'set':
                op['freeze'] = fz
        cases.append(dict(id=f'h{i}', root=root, opts=opts, ops=ops, transcode=transcode))
        stats[f'transcode_{transcode or "none"}'] += 1
        stats[f'freeze_{int(fz)}'] += 1
        stats[f'root_{root}'] += 1
        stats[f'compr_{opts["compression"]}'] += 1
        stats[f'flags_{opts["flags"]}'] += 1
        stats[f'maxframe_{opts["maxframe"]}'] += 1
        stats[f'maxdict_{opts["maxdict"]}'] += 1
        stats['records'] += nrec
        stats['big_containers'] += int(big)
    # container-length boundaries 61..66: every position changed alone (values-only multimap path,
    # 64-bit masks), then a key change, then shrink/grow by one across the boundary
    def kv(i, v):
        return ['6b%02x' % i, [3, str(v)]]
    def metrics_with(attrs, env, buckets):
        return [[env], ['6d', '', '', '2', [], [], '0', False], ['', [], '0'], ['', '', '', [], '0'], attrs,
                ['1', '2', [3, ['5', None, None, None, buckets]], []]]
    for n in (61, 62, 63, 64, 65, 66):
        attrs = [kv(i, i) for i in range(n)]
        env = [['65%02x' % i, '%02x' % i] for i in range(n)]
        buckets = [str(i) for i in range(n)]
        ops = [{'op': 'set', 'v': metrics_with(attrs, env, buckets), 'freeze': True}, {'op': 'w'}]
        step = 0
        for idx in sorted(set([0, 1, n - 1, n - 2, 61, 62, 63, 64]) & set(range(n))):
            step += 1
            attrs = [list(x) for x in attrs]; attrs[idx] = kv(idx, 1000 + step)
            env = [list(x) for x in env]; env[idx] = [env[idx][0], 'ff%02x' % step]
            buckets = list(buckets); buckets[idx] = str(5000 + step)
            ops += [{'op': 'set', 'v': metrics_with(attrs, env, buckets), 'freeze': True}, {'op': 'w'}]
        attrs = [list(x) for x in attrs]; attrs[n - 1] = ['6b6b', attrs[n - 1][1]]
        ops += [{'op': 'set', 'v': metrics_with(attrs, env, buckets), 'freeze': True}, {'op': 'w'}]
        ops += [{'op': 'set', 'v': metrics_with(attrs[:-1], env[:-1], buckets[:-1]), 'freeze': True}, {'op': 'w'}]
        ops += [{'op': 'set', 'v': metrics_with(attrs + [kv(99, 7)], env + [['7a', '01']], buckets + ['9']), 'freeze': True}, {'op': 'w'}, {'op': 'f'}]
        for compr in (0, 1):
            cases.append(dict(id=f'boundary-{n}-c{compr}', root='Metrics', opts={'compression': compr, 'flags': 0}, ops=ops))
            stats['boundary_cases'] += 1
    if prop == 'C02' and h is not None:
        # writer configurations with a wire-schema override (WriterOptions.Schema + descriptor): the otel schema
        # with every oneof cut to its first c alternatives and, in variant 't', every plain struct with more than
        # two fields cut by one.  The specification decoder honours the descriptor; what it must yield is the
        # written record projected to the override and padded back with defaults.
        import copy as _copy
        sys.path.insert(0, os.path.join(vlib.VERIF, 'tools', 'gen'))
        import gen_schemas as _gs
        anyv = [['6b31', [1, '61']], ['6b32', [2, True]], ['6b33', [3, '7']], ['6b34', [4, '3ff0000000000000']], ['6b35', [5, [[1, '62']]]],
                ['6b36', [6, [['6b', [3, '1']]]]], ['6b37', [7, '0102']]]
        pv = lambda k: {1: [1, '4'], 2: [2, '3ff0000000000000'], 3: [3, ['5', None, None, None, ['1', '2']]]}[k]
        for c, trunc in ((1, False), (2, False), (3, False), (6, False), (2, True), (5, True)):
            sh = _copy.deepcopy(sch)
            for st in sh['structs']:
                if st['oneof'] and len(st['fields']) > c:
                    st['fields'] = st['fields'][:c]
                elif trunc and not st['oneof'] and len(st['fields']) > 2 and st['name'] not in ('Metrics', 'Spans'):
                    st['fields'] = st['fields'][:-1]
            tag = f'oneof{c}{"t" if trunc else ""}'
            for root in ('Metrics', 'Spans'):
                rcm, mo = vlib.run_lines(h.model, ['schema %s %s' % (tag, ' '.join(_gs.model_tokens(sh))), f'counts {tag} {h.rootid(root)}'])
                counts = [int(x) for x in mo[-1].split(',') if x]
                nrec = 2 + rng.below(12)
                ops = streamlib.gen_history(sch, root, rng, nrec)
                if root == 'Metrics':
                    # directed: every alternative of AnyValue and three of PointValue, each written twice
                    pre = []
                    for k in (1, 2, 3, 1):
                        rec = [[[]], ['6d', '', '', '0', [], [], '0', False], ['', [], '0'], ['', '', '', [], '0'], anyv, ['1', str(k), pv(k), []]]
                        pre += [{'op': 'set', 'v': rec, 'freeze': True}, {'op': 'w'}]
                    ops = pre + ops
                opts = streamlib.gen_opts(rng); opts['descriptor'] = True; opts['schema'] = counts
                cases.append(dict(id=f'override-{tag}-{root}', root=root, opts=opts, ops=ops, override=sh))
                stats['override_cases'] += 1
    for sc in scenarios(sch):
        for compr in (0, 1):
            cases.append(dict(id=sc['id'] + f'-c{compr}', root=sc['root'],
                              opts=dict({'compression': compr, 'flags': 0}, **sc.get('opts_extra', {})), ops=sc['ops'], scenario=sc['id']))
            stats['scenario_cases'] += 1
    return cases, stats


def negzero_norm(written, read):
    """written dump with every f8000000000000000 that reads back as f0000000000000000 replaced"""
    out, i, n = [], 0, len(written)
    NEG, POS = 'f8000000000000000', 'f0000000000000000'
    while i < n:
        if written.startswith(NEG, i) and read[i:i + 17] == POS:
            out.append(POS); i += 17
        else:
            out.append(written[i]); i += 1
    return ''.join(out)


def known_for(prop):
    return {k['id']: k for k in vlib.load_known() if k['property'] == prop and k.get('status') == 'known'}


def check_case(prop, c, o, m, verdict, known, counters, sch):
    """compare one case; returns True if clean"""
    scen = c.get('scenario')
    rd = o.get('read') or {}
    written = o.get('written') or []
    replay = dict(case=c, go=dict(written=written, read=rd, werr=o.get('werr'), panic=o.get('panic')), model=m.get('raw'))

    go_recs = rd.get('recs') or []

    def fail(kind, summary, extra=None):
        # known finding? (scenario id + failure kind must match the recorded entry)
        for kid, k in known.items():
            mt = k.get('matcher', {})
            if mt.get('kind') != kind:
                continue
            if scen and mt.get('scenario') == scen:
                verdict.known_finding(kid, k['what_fails'])
                return
            if mt.get('normalizer') == 'negzero' and extra and extra.get('read') and extra.get('written'):
                # the ONLY differences are float -0 written, +0 read back (setter compares with !=)
                allr = [strip_mask(r) for r in (go_recs if prop == 'C01' else m.get('recs', []))]
                if len(allr) == len(written) and all(
                        a == b or (len(a) == len(b) and a == negzero_norm(b, a)) for a, b in zip(allr, written)):
                    verdict.known_finding(kid, k['what_fails'])
                    return
        r = dict(replay, kind=kind)
        if extra:
            r.update(extra)
        verdict.violation(r, f'{c["id"]}: {summary}')
        counters[kind] += 1

    if o.get('panic'):
        fail('writer-panic', f'writer panicked: {o["panic"][:120]}')
        return
    if o.get('werr'):
        fail('writer-error', f'writer returned error: {o["werr"][:120]}')
        return
    go_recs = rd.get('recs') or []
    if prop == 'C01':
        if rd.get('panic'):
            fail('reader-panic', f'reader panicked: {rd["panic"][:120]}'); return
        if rd.get('openerr'):
            fail('open-error', f'reader creation failed: {rd["openerr"][:100]}'); return
        if [strip_mask(r) for r in go_recs] != written:
            # first difference
            i = next((i for i in range(min(len(go_recs), len(written))) if strip_mask(go_recs[i]) != written[i]), min(len(go_recs), len(written)))
            fail('roundtrip', f'record {i}: read back != written ({len(go_recs)} read, {len(written)} written)',
                 dict(first_diff=i, read=go_recs[i] if i < len(go_recs) else None, written=written[i] if i < len(written) else None))
            return
        if rd.get('err') != 'eof':
            fail('no-eof', f'reader ended with {rd.get("err")!r} instead of end of stream'); return
        tr = o.get('trans')
        if tr:
            # the records read back, handed by CopyFrom (frozen dictionary values shared with the reader's
            # dictionaries) to a second writer: a reader of the second stream returns exactly those records
            if tr.get('panic') or tr.get('err'):
                fail('transcode', f'transcoding the stream failed: {(tr.get("panic") or tr.get("err"))[:160]}', dict(transcode=c.get('transcode'))); return
            if tr.get('got') != tr.get('expected'):
                ex, gt = tr.get('expected') or [], tr.get('got') or []
                i = next((i for i in range(min(len(ex), len(gt))) if ex[i] != gt[i]), min(len(ex), len(gt)))
                fail('transcode', f'transcoded record {i}: a reader of the second stream returns something else than the record that was copied ({len(gt)} read, {len(ex)} copied)',
                     dict(first_diff=i, copied=ex[i] if i < len(ex) else None, read=gt[i] if i < len(gt) else None, transcode=c.get('transcode'))); return
            counters['transcoded_streams'] += 1
        if not rd.get('stable', True):
            fail('unstable', 'a value taken from an earlier record changed while later records were read'); return
        if o.get('wcount') != len(written):
            fail('wcount', f'writer RecordCount {o.get("wcount")} != {len(written)} writes'); return
        # differing top-level field => modified flag
        for i in range(1, len(go_recs)):
            a, b = split_top(strip_mask(go_recs[i - 1])), split_top(strip_mask(go_recs[i]))
            mk = mask_of(go_recs[i])
            for j in range(len(b)):
                if a[j] != b[j] and not (mk >> j) & 1:
                    fail('modified-flag', f'record {i} field {j} differs from the preceding record but is not reported modified')
                    return
        # correspondence with the model on records + flags + terminal status
        if m.get('open') != 'ok' or m.get('end') != 'eos' or m.get('recs') != go_recs:
            verdict.violation(dict(replay, kind='correspondence', broken='correspondence C01: model reader vs generated reader'),
                              f'{c["id"]}: model reader and Go reader disagree on records/flags', no_input=True)
            counters['correspondence'] += 1
            return
    else:  # C02
        if c.get('override'):
            import check_c04 as _c4
            written = [_c4.conv_dump(_c4.conv_dump(w, sch, c['override'], c['root']), c['override'], sch, c['root']) for w in written]
        if m.get('open') != 'ok' or m.get('end') != 'eos':
            fail('spec-decode', f'specification decoder rejects the emitted bytes ({m.get("open")}, {m.get("end")})'); return
        if [strip_mask(r) for r in m.get('recs', [])] != written:
            mr = m.get('recs', [])
            i = next((i for i in range(min(len(mr), len(written))) if strip_mask(mr[i]) != written[i]), min(len(mr), len(written)))
            fail('spec-decode', f'record {i}: specification decoder yields a different record than was written',
                 dict(first_diff=i, read=mr[i] if i < len(mr) else None, written=written[i] if i < len(written) else None))
            return
        woks = [t[4:] for t in (m.get('raw_full') or '').split(' ') if t.startswith('wok:')]
        if any(w.split('/')[0] != w.split('/')[1] for w in woks):
            verdict.violation(dict(replay, kind='precondition', broken='wire_ok (precondition of wire_roundtrip) is false for a record the implementation emitted', wok=woks),
                              f'{c["id"]}: an emitted record does not satisfy the precondition of the round-trip theorem', no_input=True)
            counters['precondition'] += 1
            return
        counters['records_satisfying_wire_ok'] += sum(int(w.split('/')[0]) for w in woks)
        if m.get('reenc') != 'ok':
            fail('canonical', f'emitted frame differs from the canonical encoding of its own content ({m.get("reenc", "")[:60]})'); return
        if ' sok:1' not in (m.get('raw_full') or ''):
            verdict.violation(dict(replay, kind='precondition', broken='stream_ok (hypothesis of C01_stream_roundtrip_bytes / C01_stream_roundtrip_frames) is false for a stream the implementation emitted'),
                              f'{c["id"]}: the emitted stream does not satisfy the hypothesis of the whole-stream round-trip theorem', no_input=True)
            counters['precondition'] += 1
            return
        counters['streams_satisfying_stream_ok'] += 1
    counters['clean'] += 1


def main():
    prop = sys.argv[1]
    seed, tier = vlib.seed_and_tier(sys.argv[2] if len(sys.argv) > 2 else 'quick')
    t0 = time.time()
    verdict = vlib.Verdict(prop)
    info = vlib.proof_stage(prop, verdict)
    ok_oc, log_oc = vlib.ocaml_build(vlib.ALL_DRIVERS)
    ok_go, log_go, gobin, sch, sj = streamlib.build_otel()
    rng = SplitMix(seed)
    counters = collections.Counter()
    coverage = dict(info)
    samples = []
    stats = {}
    ncases = 0
    if not ok_go:
        verdict.violation(dict(broken='go build of harness/otel failed', log=log_go[-3000:]), 'harness does not build', no_input=True)
    elif not ok_oc:
        verdict.violation(dict(broken='extraction/ocaml build failed', log=log_oc[-3000:]), 'model does not extract', no_input=True)
    else:
        h = streamlib.Harness('otel', sch, gobin, sj)
        cases, stats = gen_cases(sch, rng, tier, h, prop)
        # corpus of earlier minimised failures runs first
        corpus = sorted(glob.glob(os.path.join(vlib.VERIF, 'corpus', prop, '*.json')))
        ccases = [json.load(open(p)) for p in corpus]
        cases = ccases + cases
        ncases = len(cases)
        outs, stderr, rc = h.run_go(cases)
        if len(outs) != len(cases):
            verdict.violation(dict(broken='go harness crashed', stderr=stderr, got=len(outs), want=len(cases),
                                   next_case=cases[len(outs)] if len(outs) < len(cases) else None),
                              'harness process died (fatal error in the implementation?)')
        else:
            items = [(c['root'], o['stream'], o.get('frames'), c['opts'].get('compression', 0)) for c, o in zip(cases, outs)]
            mlines = h.run_model(items)
            known = known_for(prop)
            for c, o, ml in zip(cases, outs, mlines):
                check_case(prop, c, o, parse_model_line(ml), verdict, known, counters, sch)
            if prop == 'C02':
                golden_check(h, verdict, counters)
            k = len(ccases)
            for i in (k, k + len(cases) // 3, len(cases) - 1):
                c, o = cases[i], outs[i]
                samples.append(dict(id=c['id'], root=c['root'], opts=c['opts'], n_ops=len(c['ops']),
                                    stream_bytes=len(o['stream']) // 2, frames=len(o.get('frames') or []),
                                    first_record=(o.get('written') or [''])[0][:300]))
    if info['broken'] and not verdict.violations:
        verdict.violation(dict(broken=info['broken'], searched=f'{ncases} histories, no failing input'),
                          'proof obligation no longer checks: ' + '; '.join(info['broken'])[:300], no_input=True)
    coverage.pop('broken', None)
    coverage.update(dict(
        broken_obligations=info['broken'],
        trusted_base=vlib.TRUSTED_COMMON + [
            'section hypotheses: none used yet; zstd frames are decompressed by the harness with klauspost/compress (trusted) before the model sees them',
            'modelled, not verified: generated Go code of go/otel/otelstef (reached through the reflective harness)'],
        evaluations=ncases, distinct_nontrivial=counters['clean'] + sum(v for k, v in counters.items() if k != 'clean'),
        rule='one case = one writer configuration + record history (or a hand-built op scenario); every case has >= 1 record; distinct by construction (PRNG stream)',
        distribution=dict(stats), outcome_counts=dict(counters), samples=samples, exhaustive=False))
    rc = verdict.finish()
    vlib.write_evidence(prop, tier, seed, coverage, time.time() - t0, len(verdict.violations),
                        ['decoder limits of go/pkg/limits.go respected by the generator',
                         'RestartCompression without compression is probed separately (finding D5)'])
    sys.exit(rc)


def golden_check(h, verdict, counters):
    """streams recorded at the pinned commit keep decoding to their recorded dumps"""
    gdir = os.path.join(vlib.VERIF, 'corpus', 'golden')
    files = sorted(glob.glob(os.path.join(gdir, '*.json')))
    if not files:
        return
    gold = [json.load(open(p)) for p in files]
    cases = [dict(id=g['id'], root=g['root'], mode='readonly', stream=g['stream'], opts={}) for g in gold]
    outs, stderr, rc = h.run_go(cases)
    items = [(g['root'], g['stream'], o.get('frames'), g['compression']) for g, o in zip(gold, outs)]
    mlines = h.run_model(items)
    for g, o, ml in zip(gold, outs, mlines):
        m = parse_model_line(ml)
        rd = o.get('read') or {}
        if [strip_mask(r) for r in (rd.get('recs') or [])] != g['records'] or rd.get('err') != 'eof':
            verdict.violation(dict(golden=g['id'], expected=g['records'][:3], got=(rd.get('recs') or [])[:3], err=rd.get('err')),
                              f'golden stream {g["id"]} no longer decodes to its recorded records with the current reader')
            counters['golden'] += 1
        elif [strip_mask(r) for r in m.get('recs', [])] != g['records']:
            verdict.violation(dict(golden=g['id'], broken='model decoder vs recorded golden dump', model=m.get('raw')),
                              f'golden stream {g["id"]}: model decoder disagrees with the recorded dump', no_input=True)
            counters['golden'] += 1
        else:
            counters['golden_ok'] += 1


if __name__ == '__main__':
    main()
