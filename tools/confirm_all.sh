#!/bin/bash
# re-confirm every stored seeded change against the current /repo HEAD (scratch worktrees under /tmp,
# removed afterwards): applies, builds, existing tests pass, demo fails with the patch and passes without
cd "$(dirname "$0")/.."
while IFS=$'\t' read -r id target re mod mods; do
  [ -z "$id" ] && continue
  [ -n "$1" ] && [[ "$id" != $1 ]] && continue
  python3 tools/confirm_seed.py seeded/$id "$target" "$re" "$mod" $mods
done < seeded/confirm_args.tsv
