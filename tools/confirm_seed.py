#!/usr/bin/env python3
"""Confirm a seeded change in a scratch worktree: applies, builds, existing tests pass, demo fails
with the patch and passes without. usage: confirm_seed.py <seed dir> <demo target dir rel. to repo> <go test run regex> <module dir>"""
import json, os, subprocess, sys, shutil
seed, target, runre, mod = sys.argv[1:5]
mods = sys.argv[5:] or ['go/pkg', 'go/otel']
wt = '/tmp/confirm_' + os.path.basename(seed)
env = dict(os.environ, GOFLAGS='-mod=mod', GOPROXY='off')
def sh(c, cwd=None):
    p = subprocess.run(c, shell=True, cwd=cwd, env=env, stdout=subprocess.PIPE, stderr=subprocess.STDOUT)
    return p.returncode, p.stdout.decode()[-1500:]
sh(f'git -C /repo worktree remove --force {wt}')
rc, out = sh(f'git -C /repo worktree add -q {wt} HEAD'); assert rc == 0, out
res = {}
try:
    demos = [f for f in os.listdir(os.path.join(seed, 'demo'))]
    for f in demos:
        shutil.copy(os.path.join(seed, 'demo', f), os.path.join(wt, target, f))
    rc, out = sh(f'go test -vet=off -count=1 -run "{runre}" ./' + ('' if os.path.relpath(target, mod) == '.' else os.path.relpath(target, mod) + '/'), cwd=os.path.join(wt, mod))
    res['demo_without_patch_passes'] = (rc == 0)
    rc, out = sh(f'git apply {os.path.abspath(seed)}/patch.diff', cwd=wt); res['applies'] = (rc == 0)
    rc, out = sh(f'go test -vet=off -count=1 -run "{runre}" ./' + ('' if os.path.relpath(target, mod) == '.' else os.path.relpath(target, mod) + '/'), cwd=os.path.join(wt, mod))
    res['demo_with_patch_fails'] = (rc != 0)
    for f in demos:
        os.remove(os.path.join(wt, target, f))
    ok = True
    for m in mods:
        rc, out = sh('go build ./... && go test -vet=off -count=1 ./...', cwd=os.path.join(wt, m))
        res[f'tests_{m}'] = (rc == 0)
        if rc != 0:
            res[f'log_{m}'] = out
finally:
    sh(f'git -C /repo worktree remove --force {wt}')
print(json.dumps({os.path.basename(seed): res}))
