"""Synthesis of STEF streams whose records nest a recursive value ever deeper (property C03).
The implementation's own writer cannot produce them (its encoder recursion needs more stack than the
decoder's), so a template is extended at the byte level: the Go writer emits four records whose
attribute value is a chain of one-element arrays of depth 8, 16, 24, 32, one frame each; the columns
that grow from one frame to the next grow by a constant unit per 8 levels, which is repeated. The
synthesis of depth 24 and 32 from the depth-16 frame must reproduce the writer's own frames byte for
byte before anything else is generated."""
W = (0, 2, 5, 12, 19, 26, 33, 48)


def leb(v):
    out = bytearray()
    while v >= 0x80:
        out.append((v & 0x7f) | 0x80); v >>= 7
    out.append(v)
    return bytes(out)


def unleb(b, i):
    v = s = 0
    while True:
        x = b[i]; i += 1; v |= (x & 0x7f) << s; s += 7
        if x < 0x80:
            return v, i


def uvc_bits(v):
    for k, w in enumerate(W):
        if (w == 0 and v == 0) or (w > 0 and v < (1 << w)):
            return '0' * k + '1' + (format(v, '0%db' % w) if w else '')
    raise ValueError(v)


def parse_sizes(sb):
    bits = ''.join(format(x, '08b') for x in sb); i = 0; out = []
    while '1' in bits[i:]:
        k = 0
        while bits[i] == '0':
            k += 1; i += 1
        i += 1; w = W[k]; out.append(int(bits[i:i + w], 2) if w else 0); i += w
    return out


def split_frames(b):
    assert b[:4] == b'STEF'
    n, i = unleb(b, 4); i += n
    frames = []; start = i
    while i < len(b):
        fl = b[i]; n, j = unleb(b, i + 1); frames.append((fl, b[j:j + n])); i = j + n
    return b[:start], frames


def parse_content(c):
    nrec, i = unleb(c, 0); sl, i = unleb(c, i); sizes = parse_sizes(c[i:i + sl]); i += sl
    cols = []
    for s in sizes:
        cols.append(c[i:i + s]); i += s
    assert i == len(c)
    return nrec, cols


def build_content(nrec, cols):
    bits = ''.join(uvc_bits(len(x)) for x in cols)
    bits += '0' * ((-len(bits)) % 8)
    sb = bytes(int(bits[i:i + 8], 2) for i in range(0, len(bits), 8))
    return leb(nrec) + leb(len(sb)) + sb + b''.join(cols)


def emit_frame(fl, c):
    return bytes([fl]) + leb(len(c)) + c


def nested_value(depth):
    """harness value of an AnyValue: a chain of one-element arrays ending in the string "x" """
    v = [1, '78']
    for _ in range(depth):
        v = [5, [v]]
    return v


class Synth:
    def __init__(self, base):
        self.hdr, self.frames = split_frames(base)
        assert len(self.frames) == 5, len(self.frames)
        self.n2, self.c2 = parse_content(self.frames[2][1])
        _, c3 = parse_content(self.frames[3][1])
        assert len(self.c2) == len(c3)
        self.units = []
        for a, b in zip(self.c2, c3):
            g = len(b) - len(a)
            self.units.append(None if g == 0 else (len(a) // 2, b[len(a) // 2:len(a) // 2 + g]))
        assert self.frame(24) == self.frames[3][1] and self.frame(32) == self.frames[4][1], 'template does not extend periodically'

    def frame(self, depth):
        m = (depth - 16) // 8
        assert depth % 8 == 0 and m >= 0
        cols = [a if u is None else a[:u[0]] + u[1] * m + a[u[0]:] for a, u in zip(self.c2, self.units)]
        return build_content(self.n2, cols)

    def write(self, path, depths):
        with open(path, 'wb') as f:
            f.write(self.hdr); f.write(emit_frame(*self.frames[0])); f.write(emit_frame(*self.frames[1]))
            for d in depths:
                f.write(emit_frame(self.frames[2][0], self.frame(d)))
