#!/bin/bash
# apply every stored seeded change matching the glob to /repo's working tree, run the quick check of the
# property it breaks, revert; prints one line per seed (rc=1 and viol>0 expected)
cd "$(dirname "$0")/.."
glob=${1:-*}
for d in seeded/$glob/; do
  id=$(basename $d); [ -f $d/patch.diff ] || continue
  P=$(python3 -c "import json;print(json.load(open('$d/meta.json'))['breaks'])")
  cmd=$(python3 -c "import json;m=json.load(open('MANIFEST.json'));print([c['quick_cmd'] for c in m['checks'] if c['property_id']=='$P'][0])")
  if ! git -C /repo apply $PWD/$d/patch.diff 2>/dev/null; then echo "$id: patch does not apply"; git -C /repo checkout -- .; continue; fi
  mkdir -p build/detect; timeout 3000 $cmd > build/detect/$id.log 2>&1; rc=$?
  echo "$id $P rc=$rc viol=$(grep -c '^VIOLATION' build/detect/$id.log) :: $(grep '^#' build/detect/$id.log | head -1 | cut -c1-140)"
  git -C /repo checkout -- . ; git -C /repo clean -fdq
done
git -C /repo status --short | head -3
