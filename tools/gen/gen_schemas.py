#!/usr/bin/env python3
"""Translator: STEF IDL (.stef) -> numbered schema used by the Coq model.
Own tokenizer/parser (independent of go/pkg/idl). Produces
  * a dict (JSON for the Go harness),
  * a token line for the OCaml driver,
  * Coq terms for coq/gen/Schemas.v."""
import re, os, sys, glob, json

PRIMS = {'bool': 'PBool', 'int64': 'PInt64', 'uint64': 'PUint64', 'float64': 'PFloat64',
         'string': 'PString', 'bytes': 'PBytes'}
PRIM_CODE = {'PBool': 'b', 'PInt64': 'i', 'PUint64': 'u', 'PFloat64': 'f', 'PString': 's', 'PBytes': 'y'}


class ParseError(Exception):
    pass


def tokenize(text):
    toks = []
    i, n = 0, len(text)
    while i < n:
        c = text[i]
        if c in ' \t\r\n':
            i += 1
        elif text.startswith('//', i):
            j = text.find('\n', i)
            i = n if j < 0 else j
        elif c in '{}[]()=':
            toks.append(c); i += 1
        elif c.isalpha() or c == '_':
            j = i
            while j < n and (text[j].isalnum() or text[j] in '_.'):
                j += 1
            toks.append(text[i:j]); i = j
        elif c.isdigit():
            j = i
            while j < n and (text[j].isalnum() or text[j] == '_'):
                j += 1
            toks.append(text[i:j]); i = j
        else:
            raise ParseError(f'bad char {c!r}')
    return toks


def parse(text):
    t = tokenize(text)
    pos = 0

    def peek():
        return t[pos] if pos < len(t) else None

    def eat(x=None):
        nonlocal pos
        if pos >= len(t) or (x is not None and t[pos] != x):
            raise ParseError(f'expected {x} at {pos}: {t[pos:pos+3]}')
        pos += 1
        return t[pos - 1]

    def dict_mod():
        eat('dict'); eat('(')
        name = eat(); eat(')')
        return name

    def ftype():
        arr = False
        if peek() == '[':
            eat('['); eat(']'); arr = True
        name = eat()
        d = None
        if peek() == 'dict':
            d = dict_mod()
        ty = {'k': 'prim', 'p': PRIMS[name], 'dict': d} if name in PRIMS else {'k': 'ref', 'name': name, 'dict': d}
        return {'k': 'array', 'elem': ty} if arr else ty

    sch = {'package': None, 'structs': [], 'multimaps': [], 'enums': []}
    while peek() is not None:
        kw = eat()
        if kw == 'package':
            sch['package'] = eat()
        elif kw in ('struct', 'oneof'):
            s = {'name': eat(), 'oneof': kw == 'oneof', 'dict': None, 'root': False, 'fields': []}
            while peek() != '{':
                if peek() == 'dict':
                    s['dict'] = dict_mod()
                elif peek() == 'root':
                    eat(); s['root'] = True
                else:
                    raise ParseError('struct modifier')
            eat('{')
            while peek() != '}':
                f = {'name': eat(), 'type': ftype(), 'optional': False}
                while peek() == 'optional':
                    eat(); f['optional'] = True
                s['fields'].append(f)
            eat('}')
            sch['structs'].append(s)
        elif kw == 'multimap':
            m = {'name': eat()}
            eat('{'); eat('key'); m['key'] = ftype(); eat('value'); m['value'] = ftype(); eat('}')
            sch['multimaps'].append(m)
        elif kw == 'enum':
            e = {'name': eat(), 'values': []}
            eat('{')
            while peek() != '}':
                n = eat(); eat('='); v = eat()
                e['values'].append((n, int(v.replace('_', ''), 0)))
            eat('}')
            sch['enums'].append(e)
        else:
            raise ParseError(f'unexpected {kw}')
    return resolve(sch)


def resolve(sch):
    sid = {s['name']: i for i, s in enumerate(sch['structs'])}
    mid = {m['name']: i for i, m in enumerate(sch['multimaps'])}
    enums = {e['name'] for e in sch['enums']}
    dicts = {}

    def did(name):
        if name is None:
            return None
        if name not in dicts:
            dicts[name] = len(dicts)
        return dicts[name]

    def rt(ty):
        if ty['k'] == 'array':
            return {'k': 'array', 'elem': rt(ty['elem'])}
        if ty['k'] == 'prim':
            return {'k': 'prim', 'p': ty['p'], 'dict': did(ty['dict'])}
        n = ty['name']
        if n in sid:
            return {'k': 'struct', 'id': sid[n], 'name': n}
        if n in mid:
            return {'k': 'multimap', 'id': mid[n], 'name': n}
        if n in enums:
            return {'k': 'prim', 'p': 'PUint64', 'dict': None, 'enum': n}
        raise ParseError(f'unknown type {n}')

    for s in sch['structs']:
        s['dictid'] = did(s['dict'])
        for f in s['fields']:
            f['type'] = rt(f['type'])
    for m in sch['multimaps']:
        m['key'] = rt(m['key']); m['value'] = rt(m['value'])
    sch['dicts'] = dicts
    sch['roots'] = [s['name'] for s in sch['structs'] if s['root']]
    return sch


def type_tokens(ty):
    if ty['k'] == 'prim':
        return ['P', PRIM_CODE[ty['p']], '-' if ty['dict'] is None else str(ty['dict'])]
    if ty['k'] == 'array':
        return ['A'] + type_tokens(ty['elem'])
    if ty['k'] == 'struct':
        return ['S', str(ty['id'])]
    return ['M', str(ty['id'])]


def model_tokens(sch):
    """token list consumed by ocaml/stream_driver.ml (command `schema`)"""
    out = [str(len(sch['structs']))]
    for s in sch['structs']:
        out += ['1' if s['oneof'] else '0', '-' if s['dictid'] is None else str(s['dictid']), str(len(s['fields']))]
        for f in s['fields']:
            out += type_tokens(f['type']) + ['1' if f['optional'] else '0']
    out.append(str(len(sch['multimaps'])))
    for m in sch['multimaps']:
        out += type_tokens(m['key']) + type_tokens(m['value'])
    return out


def coq_type(ty):
    if ty['k'] == 'prim':
        d = 'None' if ty['dict'] is None else f'(Some {ty["dict"]})'
        return f'(TPrim {ty["p"]} {d})'
    if ty['k'] == 'array':
        return f'(TArray {coq_type(ty["elem"])})'
    if ty['k'] == 'struct':
        return f'(TStruct {ty["id"]})'
    return f'(TMultimap {ty["id"]})'


def coq_schema(name, sch):
    L = [f'Definition {name} : schema := mkSchema', '  [']
    ss = []
    for s in sch['structs']:
        fs = '; '.join(f'mkField {coq_type(f["type"])} {"true" if f["optional"] else "false"}' for f in s['fields'])
        d = 'None' if s['dictid'] is None else f'(Some {s["dictid"]})'
        ss.append(f'   (* {s["name"]} *) mkSdef {"true" if s["oneof"] else "false"} {d} [{fs}]')
    L.append(';\n'.join(ss))
    L.append('  ]\n  [')
    L.append(';\n'.join(f'   (* {m["name"]} *) mkMdef {coq_type(m["key"])} {coq_type(m["value"])}' for m in sch['multimaps']))
    L.append('  ].')
    for r in sch['roots']:
        rid = [i for i, s in enumerate(sch['structs']) if s['name'] == r][0]
        L.append(f'Definition {name}_root_{r} : N := {rid}.')
    return '\n'.join(L)


def schema_files(repo):
    fs = [f'{repo}/go/otel/otel.stef'] + sorted(glob.glob(f'{repo}/examples/*/*.stef')) + \
         sorted(glob.glob(f'{repo}/stefc/generator/testdata/*.stef'))
    return fs


def coq_ident(path):
    base = os.path.splitext(os.path.basename(path))[0]
    d = os.path.basename(os.path.dirname(path))
    return re.sub(r'\W', '_', f'sch_{d}_{base}')


def generate(repo):
    L = ['(* GENERATED by tools/gen/gen_schemas.py from the checked-in .stef files. Do not edit. *)',
         'From Coq Require Import List NArith.', 'From Stef Require Import Schema.', 'Import ListNotations.',
         'Open Scope N_scope.', '']
    names = []
    for p in schema_files(repo):
        sch = parse(open(p).read())
        nm = coq_ident(p)
        names.append(nm)
        L.append(f'(* {os.path.relpath(p, repo)} *)')
        L.append(coq_schema(nm, sch))
        L.append('')
    L.append('Definition all_schemas : list schema := [' + '; '.join(names) + '].')
    return '\n'.join(L) + '\n'


if __name__ == '__main__':
    repo = sys.argv[1] if len(sys.argv) > 1 else '/repo'
    if len(sys.argv) > 2:
        print(json.dumps(parse(open(sys.argv[2]).read()), indent=1))
    else:
        sys.stdout.write(generate(repo))
