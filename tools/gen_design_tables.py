#!/usr/bin/env python3
"""Rewrites the generated parts of DESIGN.md: the table of section 15 (from known_findings.json) and
section 16 (seeded changes, from seeded/*/meta.json). Everything between the BEGIN/END markers is replaced."""
import json, os, re, glob
V = os.path.dirname(os.path.dirname(os.path.abspath(__file__)))
p = os.path.join(V, 'DESIGN.md')
s = open(p).read()

def cell(x, n=260):
    x = ' '.join(str(x).split()).replace('|', '/')
    return x if len(x) <= n else x[:n - 1] + '…'

k = json.load(open(os.path.join(V, 'known_findings.json')))['findings']
rows = ['| property | id | status | what fails |', '|---|---|---|---|']
for f in k:
    st = f['status'] + ((' ' + f['commit']) if f.get('commit') else '')
    rows.append(f"| {f['property']} | {f['id']} | {st} | {cell(f.get('what_fails') or f.get('line') or '')} |")
t15 = '\n'.join(rows)

rows = ['| seed | breaks | files changed | what the change does | detected by |', '|---|---|---|---|---|']
for d in sorted(glob.glob(os.path.join(V, 'seeded', 'C*-*'))):
    m = json.load(open(os.path.join(d, 'meta.json')))
    files = ', '.join(os.path.basename(x) for x in m.get('files', [])[:4]) + (' …' if len(m.get('files', [])) > 4 else '')
    rows.append(f"| {os.path.basename(d)} | {m.get('breaks') or m.get('property')} | {cell(files, 120)} | {cell(m.get('summary', ''), 330)} | {cell((m.get('confirmed') or {}).get('detected_by', ''), 300)} |")
t16 = '\n'.join(rows)

def put(s, name, body):
    b, e = f'<!-- BEGIN {name} -->', f'<!-- END {name} -->'
    if b in s:
        return re.sub(re.escape(b) + '.*?' + re.escape(e), lambda _: b + '\n' + body + '\n' + e, s, flags=re.S)
    return s + f'\n{b}\n{body}\n{e}\n'

s = put(s, 'T15', t15)
s = put(s, 'T16', t16)
open(p, 'w').write(s)
print('ok', len(k), 'findings;', t16.count('\n') - 1, 'seeds')
