#!/usr/bin/env python3
"""Merge an integration/<group>.json produced by a sub-team into _CoqProject, MANIFEST.json and
known_findings.json (idempotent)."""
import json, sys, os
V = os.path.dirname(os.path.dirname(os.path.abspath(__file__)))
j = json.load(open(sys.argv[1]))
def first(*keys):
    for k in keys:
        if k in j: return j[k]
    return None
files = first('coqproject_files', 'coqproject_add_in_order', 'coq_project_files_in_dependency_order', 'coqproject', 'coq_files', '_CoqProject') or []
p = os.path.join(V, 'coq', '_CoqProject'); s = open(p).read().rstrip('\n').split('\n')
props = [l for l in s if l.startswith('Props/')]
others = [l for l in s if not l.startswith('Props/')]
for f in files:
    if f.startswith('Props/'):
        if f not in props: props.append(f)
    elif f not in others:
        others.append(f)
open(p, 'w').write('\n'.join(others + props) + '\n')
m = json.load(open(os.path.join(V, 'MANIFEST.json')))
for c in first('manifest_checks', 'manifest', 'checks') or []:
    m['checks'] = [x for x in m['checks'] if x['property_id'] != c['property_id']] + [c]
    for e in m['engines']:
        e['serves_properties'] = sorted(set(e['serves_properties']) | {c['property_id']})
m['checks'].sort(key=lambda c: c['property_id'])
json.dump(m, open(os.path.join(V, 'MANIFEST.json'), 'w'), indent=1)
k = json.load(open(os.path.join(V, 'known_findings.json')))
ids = {f['id'] for f in k['findings']}
for f in first('known_findings', 'known_findings_entries', 'findings') or []:
    if f['id'] in ids:
        k['findings'] = [x for x in k['findings'] if x['id'] != f['id']]
    k['findings'].append(f)
json.dump(k, open(os.path.join(V, 'known_findings.json'), 'w'), indent=1)
print('integrated', sys.argv[1], len(files), 'coq files')
