#!/bin/bash
# run every registered check of MANIFEST.json at one tier, sequentially; logs under build/runall_<tier>/
cd "$(dirname "$0")/.."
tier=${1:-quick}
out=build/runall_$tier; mkdir -p $out
python3 - "$tier" <<'P' > $out/cmds.txt
import json,sys
m=json.load(open('MANIFEST.json'))
for c in m['checks']:
    print(c['property_id']+'\t'+c[sys.argv[1]+'_cmd'])
P
while IFS=$'\t' read -r id cmd; do
  s=$(date +%s)
  timeout 14400 $cmd > $out/$id.log 2>&1; rc=$?
  echo "$id rc=$rc $(( $(date +%s) - s ))s viol=$(grep -c '^VIOLATION' $out/$id.log) known=$(grep -c '^KNOWN-FINDING' $out/$id.log)"
done < $out/cmds.txt
