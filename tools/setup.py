#!/usr/bin/env python3
"""Setup after a fresh restore: build the Coq development (full .vo), extract + compile the OCaml
drivers, warm the Go build cache for the harness binaries. Everything offline from files on disk."""
import os, sys
sys.path.insert(0, os.path.dirname(os.path.abspath(__file__)))
import vlib

def main():
    changed, errs = vlib.regen()
    print('regenerated:', changed, errs)
    ok, log, failed = vlib.coq_build()
    print('coq build ok' if ok else 'coq build FAILED:\n' + log[-3000:])
    ok2, log2 = vlib.ocaml_build(vlib.ALL_DRIVERS)
    print('ocaml ok' if ok2 else 'ocaml FAILED:\n' + log2[-3000:])
    allok = ok and ok2
    for name in vlib.ALL_GO:
        ok3, log3, _ = vlib.go_build(name)
        print(f'go {name} ok' if ok3 else f'go {name} FAILED:\n' + log3[-2000:])
        allok = allok and ok3
    sys.exit(0 if allok else 1)

if __name__ == '__main__':
    main()
