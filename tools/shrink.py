#!/usr/bin/env python3
"""Delta debugging of a failing history: drop records, make top-level fields constant, simplify
nested values, while the failure (same kind) persists."""
import copy, json


def shrink_history(case, fails, sch=None, budget=400):
    """case: dict with ops (set/w/f/call); fails(case)->bool. Returns a smaller failing case."""
    cur = copy.deepcopy(case)
    n = [0]

    def test(c):
        n[0] += 1
        if n[0] > budget:
            return False
        try:
            return fails(c)
        except Exception:
            return False

    def records(c):
        """split ops into groups ending in 'w' (+ optional 'f')"""
        groups, g = [], []
        for op in c['ops']:
            g.append(op)
            if op['op'] == 'w':
                groups.append(g); g = []
        if g:
            groups.append(g)
        return groups

    # 1. drop trailing groups, then any group
    changed = True
    while changed:
        changed = False
        groups = records(cur)
        for i in range(len(groups) - 1, -1, -1):
            trial = copy.deepcopy(cur)
            trial['ops'] = [op for j, g in enumerate(groups) if j != i for op in g]
            if trial['ops'] and test(trial):
                cur = trial; changed = True
                break
    # 2. drop flushes
    for i in range(len(cur['ops']) - 1, -1, -1):
        if cur['ops'][i]['op'] == 'f':
            trial = copy.deepcopy(cur); del trial['ops'][i]
            if test(trial):
                cur = trial
    # 3. simplify options
    for k, v in (('compression', 0), ('maxframe', 0), ('maxdict', 0), ('flags', 0), ('descriptor', False), ('userdata', {})):
        if cur.get('opts', {}).get(k) not in (v, None):
            trial = copy.deepcopy(cur); trial['opts'][k] = v
            if test(trial):
                cur = trial
    # 4. make top-level fields constant across records (copy from first set)
    sets = [i for i, op in enumerate(cur['ops']) if op['op'] == 'set']
    if len(sets) >= 2:
        first = cur['ops'][sets[0]]['v']
        for f in range(len(first)):
            trial = copy.deepcopy(cur)
            for i in sets[1:]:
                trial['ops'][i]['v'][f] = copy.deepcopy(first[f])
            if test(trial):
                cur = trial
    # 5. structural simplification of nested values: empty lists, shorter lists
    def paths(v, p=()):
        if isinstance(v, list):
            yield p
            for i, x in enumerate(v):
                yield from paths(x, p + (i,))

    def get(v, p):
        for i in p:
            v = v[i]
        return v

    def setp(v, p, x):
        for i in p[:-1]:
            v = v[i]
        v[p[-1]] = x

    progress = True
    while progress and n[0] < budget:
        progress = False
        sets = [i for i, op in enumerate(cur['ops']) if op['op'] == 'set']
        for si in sets:
            for p in sorted(paths(cur['ops'][si]['v']), key=lambda q: -len(q)):
                if not p:
                    continue
                sub = get(cur['ops'][si]['v'], p)
                if isinstance(sub, list) and len(sub) > 0 and all(isinstance(x, list) for x in sub):
                    # try dropping last element of a list of composites
                    trial = copy.deepcopy(cur)
                    setp(trial['ops'][si]['v'], p, sub[:-1])
                    if test(trial):
                        cur = trial; progress = True
                        break
            if progress:
                break
    cur['shrunk_tests'] = n[0]
    return cur
