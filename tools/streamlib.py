#!/usr/bin/env python3
"""Shared generator / runner for the stream-level properties (C01, C02, C04-C08, C10):
random record histories over a schema (mutating the previous record so that masks, deltas and
dictionaries are exercised), writer configurations, the Go harness run, the model run, and the
comparison of projected observables."""
import json, os, subprocess, sys, copy
sys.path.insert(0, os.path.dirname(os.path.abspath(__file__)))
sys.path.insert(0, os.path.join(os.path.dirname(os.path.abspath(__file__)), 'gen'))
import vlib, gen_schemas

M64 = (1 << 64) - 1
F_SPECIAL = ['0000000000000000', '8000000000000000', '7ff0000000000000', 'fff0000000000000',
             '7ff8000000000001', '7ff0000000000001', 'ffffffffffffffff', '3ff0000000000000',
             '0000000000000001', '000fffffffffffff', '4000000000000000', '3ff0000000000001']
U_SPECIAL = [0, 1, 2, 127, 128, 1 << 32, (1 << 63) - 1, 1 << 63, M64 - 1, M64]
I_SPECIAL = [0, 1, -1, 63, -64, (1 << 63) - 1, -(1 << 63), -(1 << 63) + 1, 1 << 40]


class Gen:
    def __init__(self, sch, rng, max_depth=4, big=False, tiny=False):
        self.sch, self.rng, self.max_depth, self.big, self.tiny = sch, rng, max_depth, big, tiny
        self.strpool = [b'', b'a', b'ab', b'abc', b'k1', b'k2', b'key', b'value', b'x' * 40,
                        bytes([0, 255, 128]), b'\xc3\xa9', b'service.name', b'host', b'zz']

    def prim(self, p):
        r = self.rng
        if p == 'PBool':
            return bool(r.below(2))
        if p == 'PUint64':
            k = r.below(4)
            if k == 0: return str(r.choice(U_SPECIAL))
            if k == 1: return str(r.below(1000))
            return str(r.next() >> r.below(64))
        if p == 'PInt64':
            k = r.below(4)
            if k == 0: return str(r.choice(I_SPECIAL))
            if k == 1: return str(r.below(2000) - 1000)
            v = r.next() >> r.below(64)
            return str(v - (1 << 64) if v >= (1 << 63) else v)
        if p == 'PFloat64':
            k = r.below(3)
            if k == 0: return r.choice(F_SPECIAL)
            if k == 1: return '%016x' % (0x3ff0000000000000 + (r.below(1 << 20) << 32))
            return '%016x' % r.next()
        # string / bytes
        if self.tiny:
            return r.choice([b'', b'a', b'ab', b'k1', b'xyz']).hex()
        k = r.below(5)
        if k < 3:
            return r.choice(self.strpool).hex()
        if k == 3:
            s = bytes(r.below(256) for _ in range(r.below(6)))
            if r.chance(1, 2):
                self.strpool.append(s)
            return s.hex()
        return (b'L' * (100 + r.below(300))).hex()

    def length(self, is_map):
        r = self.rng
        if self.tiny:
            return r.choice([0, 0, 1, 1, 2])
        k = r.below(20)
        if k < 4: return 0
        if k < 12: return 1 + r.below(3)
        if k < 18: return r.below(8)
        if self.big and is_map: return r.choice([61, 62, 63, 64, 65, 70])
        if self.big: return r.choice([20, 63, 64, 65])
        return r.below(12)

    def value(self, t, depth=0):
        r = self.rng
        k = t['k']
        if k == 'prim':
            return self.prim(t['p'])
        if k == 'array':
            n = 0 if depth >= self.max_depth else self.length(False)
            if t['elem']['k'] != 'prim' and n > 8:
                n = 8 if not self.big else n
            return [self.value(t['elem'], depth + 1) for _ in range(n)]
        if k == 'multimap':
            mm = self.sch['multimaps'][t['id']]
            n = 0 if depth >= self.max_depth else self.length(True)
            return [[self.value(mm['key'], depth + 1), self.value(mm['value'], depth + 1)] for _ in range(n)]
        st = self.sch['structs'][t['id']]
        if st['oneof']:
            n = len(st['fields'])
            tag = 0 if (depth >= self.max_depth and r.chance(1, 2)) else r.below(n + 1)
            if tag == 0:
                return [0, None]
            ft = st['fields'][tag - 1]['type']
            if depth >= self.max_depth and ft['k'] != 'prim':
                prims = [i for i, f in enumerate(st['fields']) if f['type']['k'] == 'prim']
                if not prims:
                    return [0, None]
                tag = r.choice(prims) + 1
                ft = st['fields'][tag - 1]['type']
            return [tag, self.value(ft, depth + 1)]
        out = []
        for f in st['fields']:
            if f['optional'] and (r.chance(1, 3) or (depth >= self.max_depth and f['type']['k'] != 'prim')):
                out.append(None)
            else:
                out.append(self.value(f['type'], depth + 1))
        return out

    def _has_append_array(self, t, seen=None):
        """does a value of type t contain an array whose elements are handed over with Append?"""
        if os.environ.get('VERIF_NO_APPEND_GUARD'):
            return False
        seen = seen if seen is not None else set()
        k = t['k']
        if k == 'prim':
            return False
        if k == 'array':
            et = t['elem']
            if et['k'] == 'multimap' or (et['k'] == 'struct' and self.sch['structs'][et['id']].get('dict')):
                return True
            return self._has_append_array(et, seen)
        key = (k, t['id'])
        if key in seen:
            return False
        seen.add(key)
        if k == 'multimap':
            mm = self.sch['multimaps'][t['id']]
            return self._has_append_array(mm['key'], seen) or self._has_append_array(mm['value'], seen)
        return any(self._has_append_array(f['type'], seen) for f in self.sch['structs'][t['id']]['fields'])

    def toggle_one_optional(self, t, v):
        """v with exactly one optional field (somewhere inside) switched between absent and present and
        nothing else changed; None when v holds no optional field"""
        import copy as _copy
        paths = []

        def walk(t, v, path, depth):
            k = t['k']
            if v is None or k == 'prim' or depth > 6:
                return
            if k == 'array':
                for i, x in enumerate(v):
                    walk(t['elem'], x, path + [i], depth + 1)
            elif k == 'multimap':
                mm = self.sch['multimaps'][t['id']]
                for i, kv in enumerate(v):
                    walk(mm['value'], kv[1], path + [i, 1], depth + 1)
            else:
                st = self.sch['structs'][t['id']]
                if st['oneof']:
                    if v[0] > 0:
                        walk(st['fields'][v[0] - 1]['type'], v[1], path + [1], depth + 1)
                else:
                    for i, f in enumerate(st['fields']):
                        if f['optional']:
                            paths.append((path + [i], f['type']))
                        if i < len(v):
                            walk(f['type'], v[i], path + [i], depth + 1)
        walk(t, v, [], 0)
        if not paths:
            return None
        path, ft = self.rng.choice(paths)
        nv = _copy.deepcopy(v)
        cur = nv
        for p in path[:-1]:
            cur = cur[p]
        cur[path[-1]] = None if cur[path[-1]] is not None else self.value(ft, 3)
        return nv

    def mutate(self, t, v, depth=0):
        """a value close to v: most of it kept, some parts changed"""
        r = self.rng
        k = t['k']
        if v is None or (r.chance(1, 12) and not self._has_append_array(t)):
            return self.value(t, depth)
        if k == 'prim':
            return self.prim(t['p'])
        if k == 'array':
            v = list(v)
            et = t['elem']
            if (et['k'] == 'multimap' or (et['k'] == 'struct' and self.sch['structs'][et['id']].get('dict'))) and not os.environ.get('VERIF_NO_APPEND_GUARD'):
                # elements handed over with Append: only extension / truncation between records
                # (clearing and re-appending inside one record is the known finding C01-array-regrow)
                c = r.below(3)
                if c == 0 and v:
                    return v[:r.below(len(v) + 1)]
                if c == 1 and depth < self.max_depth:
                    return v + [self.value(et, depth + 1) for _ in range(1 + r.below(3))]
                return v
            c = r.below(6)
            if c == 0 and not self._has_append_array(t):
                return self.value(t, depth)
            if c == 1 and v:
                v = v[:r.below(len(v) + 1)]
            elif c == 2 and depth < self.max_depth:
                v = v + [self.value(t['elem'], depth + 1) for _ in range(1 + r.below(3))]
            elif v:
                i = r.below(len(v))
                v[i] = self.mutate(t['elem'], v[i], depth + 1)
            return v
        if k == 'multimap':
            mm = self.sch['multimaps'][t['id']]
            v = [list(x) for x in v]
            c = r.below(8)
            if c == 0 and not self._has_append_array(t):
                return self.value(t, depth)
            if c == 1 and v:
                v = v[:r.below(len(v) + 1)]
            elif c == 2 and depth < self.max_depth:
                v = v + [[self.value(mm['key'], depth + 1), self.value(mm['value'], depth + 1)] for _ in range(1 + r.below(3))]
            elif c == 3 and v:
                i = r.below(len(v))
                v[i][0] = self.mutate(mm['key'], v[i][0], depth + 1)
            elif v:      # values only (the values-only encoding path)
                for _ in range(1 + r.below(2)):
                    i = r.below(len(v))
                    v[i][1] = self.mutate(mm['value'], v[i][1], depth + 1)
            return v
        st = self.sch['structs'][t['id']]
        if st['oneof']:
            if (r.chance(1, 3) and not self._has_append_array(t)) or v[0] == 0:
                return self.value(t, depth)
            ft = st['fields'][v[0] - 1]['type']
            return [v[0], self.mutate(ft, v[1], depth + 1)]
        v = list(v)
        nf = len(st['fields'])
        for _ in range(1 + r.below(2)):
            if nf == 0:
                break
            i = r.below(nf)
            f = st['fields'][i]
            if f['optional'] and r.chance(1, 3):
                v[i] = None if v[i] is not None else self.value(f['type'], depth + 1)
            elif f['optional'] and depth >= self.max_depth and f['type']['k'] != 'prim':
                v[i] = None
            else:
                v[i] = self.mutate(f['type'], v[i], depth + 1)
        return v


def gen_opts(rng, tier_full=True, allow_zstd=True):
    o = {'compression': rng.below(2) if allow_zstd else 0,
         'maxframe': rng.choice([0, 0, 0, 1, 64, 500, 4000]),
         'maxdict': rng.choice([0, 0, 0, 1, 64, 500, 4000]),
         'flags': rng.choice([0, 0, 0, 1, 2, 3, 4, 5, 6, 7]),
         'descriptor': rng.chance(1, 3),
         'userdata': {}}
    if rng.chance(1, 4):
        o['userdata'] = {'k%d' % i: 'v' * rng.below(5) for i in range(rng.below(3) + 1)}
    return o


def gen_history(sch, root, rng, nrec, big=False, tiny=False, detour=True, copies=True):
    """ops: set/w with occasional f; values evolve by mutation"""
    g = Gen(sch, rng, big=big, tiny=tiny, max_depth=2 if tiny else 4)
    rid = [i for i, s in enumerate(sch['structs']) if s['name'] == root][0]
    t = {'k': 'struct', 'id': rid}
    cur = g.value(t)
    ops = []
    prev = None
    for i in range(nrec):
        if detour and prev is not None and rng.chance(1, 3) and not g._has_append_array(t):
            # a detour between two writes: the record is first set to another value (arrays shrink and
            # grow again, oneofs switch away and back, optionals are unset and set), then to the one written
            c = rng.below(3)
            other = g.value(t) if c == 0 else g.mutate(t, prev if c == 1 else cur)
            ops.append({'op': 'set', 'v': other, 'freeze': rng.chance(1, 2)})
        ops.append({'op': 'set', 'v': cur, 'freeze': rng.chance(1, 2), 'copy': bool(copies and rng.chance(1, 4) and not g._has_append_array(t)),
                    'reuse': i % 2 == 0})      # (with freeze) a dictionary struct value seen before is handed over as the same frozen object
        ops.append({'op': 'w'})
        prev = cur
        if rng.chance(1, 6):
            ops.append({'op': 'f'})
        if rng.chance(1, 8):
            pass                      # identical record again
        elif rng.chance(1, 6) and g.toggle_one_optional(t, cur) is not None:
            cur = g.toggle_one_optional(t, cur)       # only the presence of one optional field changes
        elif rng.chance(1, 10) and not g._has_append_array(t):
            cur = g.value(t)
        else:
            cur = g.mutate(t, cur)
    ops.append({'op': 'f'})
    return ops


# ---------------------------------------------------------------- running
class Harness:
    """one schema: Go binary + model driver"""
    def __init__(self, name, sch, gobin, schema_json_path):
        self.name, self.sch, self.gobin, self.sjson = name, sch, gobin, schema_json_path
        self.model = os.path.join(vlib.BUILD, 'stream_driver')
        rc, out = vlib.sh([gobin, schema_json_path, 'sizes'])
        self.sizes = out.strip()
        self.prelude = ['schema %s %s' % (name, ' '.join(gen_schemas.model_tokens(sch))),
                        'sizes %s %s' % (name, self.sizes)]

    def rootid(self, root):
        return [i for i, s in enumerate(self.sch['structs']) if s['name'] == root][0]

    def run_go(self, cases, timeout=900):
        inp = '\n'.join(json.dumps(c) for c in cases) + '\n'
        p = subprocess.run([self.gobin, self.sjson], input=inp.encode(), stdout=subprocess.PIPE,
                           stderr=subprocess.PIPE, timeout=timeout)
        outs = [json.loads(l) for l in p.stdout.decode().split('\n') if l.strip()]
        return outs, p.stderr.decode()[-3000:], p.returncode

    def model_read_lines(self, items):
        """items: list of (root, stream_hex, frames or None, compression)."""
        lines = list(self.prelude)
        for root, stream, frames, compr in items:
            rid = self.rootid(root)
            if compr == 0:
                lines.append(f'read {self.name} {rid} raw {stream or "-"}')
            else:
                spec = ','.join(f'{f["fl"]}:{f["content"] or "-"}' for f in (frames or []))
                lines.append(f'read {self.name} {rid} frames {spec or "-"}')
        return lines

    def run_model(self, items, timeout=1800):
        lines = self.model_read_lines(items)
        rc, out = vlib.run_lines(self.model, lines, timeout=timeout)
        return out[len(self.prelude):]


def parse_model_line(line):
    toks = line.split(' ')
    d = {'recs': [t[2:] for t in toks if t.startswith('r:')], 'frames': [t[2:] for t in toks if t.startswith('f:')]}
    for t in toks:
        for k in ('open', 'end', 'reenc', 'ws', 'ud'):
            if t.startswith(k + ':'):
                d[k] = t[len(k) + 1:]
    d['raw'] = line if len(line) < 400 else line[:400] + '...'
    d['raw_full'] = ' '.join(t for t in toks if not t.startswith('r:'))
    return d


def strip_mask(r):
    return r.rsplit('~', 1)[0]


def mask_of(r):
    return int(r.rsplit('~', 1)[1])


def split_top(dump):
    """top-level fields of a struct dump '{a,b,c}' respecting nesting"""
    assert dump[0] == '{' and dump[-1] == '}'
    out, depth, cur = [], 0, []
    for ch in dump[1:-1]:
        if ch in '{[(<':
            depth += 1
        elif ch in '}])>':
            depth -= 1
        if ch == ',' and depth == 0:
            out.append(''.join(cur)); cur = []
        else:
            cur.append(ch)
    out.append(''.join(cur))
    return out


def build_otel():
    ok, log, gobin = vlib.go_build('otel')
    sch = gen_schemas.parse(open(f'{vlib.REPO}/go/otel/otel.stef').read())
    sj = os.path.join(vlib.BUILD, 'otel.json')
    open(sj, 'w').write(json.dumps(sch))
    return ok, log, gobin, sch, sj
