#!/usr/bin/env python3
"""Shared machinery of every check: regenerate coq/gen from /repo, build the Coq development,
collect Print Assumptions, extract + build the OCaml model drivers, build the Go harness from
/repo's working tree, run cases on both, write evidence, report violations."""
import fcntl, hashlib, json, os, re, subprocess, sys, time

VERIF = os.path.dirname(os.path.dirname(os.path.abspath(__file__)))
REPO = os.environ.get('VERIF_REPO', '/repo')
COQ = os.path.join(VERIF, 'coq')
BUILD = os.path.join(VERIF, 'build')
GOENV = dict(os.environ, GOFLAGS='-mod=mod', GOPROXY='off')
for k in ('GOSUMDB', 'GOTOOLCHAIN'):
    GOENV.pop(k, None)
ALL_DRIVERS = ('prim_driver', 'stream_driver')
ALL_GO = ('prim', 'otel')
ALLOWED_AXIOMS = set()  # none expected; stdlib axioms would be named here and in DESIGN.md §11

os.makedirs(BUILD, exist_ok=True)


def _big_stack():
    # extracted OCaml code recurses over lists non-tail-recursively: give the drivers a large stack
    import resource
    try:
        resource.setrlimit(resource.RLIMIT_STACK, (resource.RLIM_INFINITY, resource.RLIM_INFINITY))
    except (ValueError, OSError):
        try:
            soft, hard = resource.getrlimit(resource.RLIMIT_STACK)
            resource.setrlimit(resource.RLIMIT_STACK, (hard, hard))
        except (ValueError, OSError):
            pass


def sh(cmd, timeout=1200, cwd=VERIF, env=None, inp=None):
    try:
        p = subprocess.run(cmd, shell=isinstance(cmd, str), cwd=cwd, env=env, input=inp, preexec_fn=_big_stack,
                           stdout=subprocess.PIPE, stderr=subprocess.STDOUT, timeout=timeout)
        return p.returncode, p.stdout.decode('utf-8', 'replace')
    except subprocess.TimeoutExpired as e:
        return 124, (e.stdout or b'').decode('utf-8', 'replace') + '\nTIMEOUT'


class Lock:
    def __init__(self, name='build'):
        self.path = os.path.join(BUILD, name + '.lock')
    def __enter__(self):
        self.f = open(self.path, 'w')
        fcntl.flock(self.f, fcntl.LOCK_EX)
    def __exit__(self, *a):
        fcntl.flock(self.f, fcntl.LOCK_UN)
        self.f.close()


class SplitMix:
    """All randomness of a check comes from one splitmix64 state seeded by VERIF_SEED."""
    def __init__(self, seed):
        self.s = seed & 0xFFFFFFFFFFFFFFFF
    def next(self):
        self.s = (self.s + 0x9E3779B97F4A7C15) & 0xFFFFFFFFFFFFFFFF
        z = self.s
        z = ((z ^ (z >> 30)) * 0xBF58476D1CE4E5B9) & 0xFFFFFFFFFFFFFFFF
        z = ((z ^ (z >> 27)) * 0x94D049BB133111EB) & 0xFFFFFFFFFFFFFFFF
        return z ^ (z >> 31)
    def below(self, n):
        return self.next() % n if n > 0 else 0
    def choice(self, xs):
        return xs[self.below(len(xs))]
    def chance(self, num, den):
        return self.below(den) < num
    def fork(self):
        return SplitMix(self.next())


def seed_and_tier(default_tier):
    seed = int(os.environ.get('VERIF_SEED', '20260930'))
    tier = os.environ.get('VERIF_TIER', default_tier)
    os.environ['VERIF_TIER_EFFECTIVE'] = tier
    return seed, tier


def write_if_changed(path, content):
    old = None
    if os.path.exists(path):
        old = open(path).read()
    if old != content:
        with open(path, 'w') as f:
            f.write(content)
        return True
    return False


# ---------------------------------------------------------------- translators
def regen():
    """Re-run every translator on /repo; returns (changed files, errors)."""
    sys.path.insert(0, os.path.join(VERIF, 'tools', 'gen'))
    changed, errors = [], []
    import importlib
    for mod, out in (('gen_tables', 'Tables.v'), ('gen_limits', 'Limits.v'),
                     ('gen_schemas', 'Schemas.v')):
        try:
            m = importlib.import_module(mod)
        except ImportError:
            continue
        try:
            content = m.generate(REPO)
        except (Exception, SystemExit) as e:  # translator cannot read the source any more
            errors.append(f'{mod}: {e}')
            continue
        if write_if_changed(os.path.join(COQ, 'gen', out), content):
            changed.append(out)
    return changed, errors


# ---------------------------------------------------------------- Coq
def coq_project_files():
    files = []
    for line in open(os.path.join(COQ, '_CoqProject')):
        line = line.strip()
        if line.endswith('.v'):
            files.append(line)
    return files


def coq_build(timeout=1500):
    """Full .vo build (no -vos). Returns (ok, log, failed_files)."""
    with Lock('coq'):
        if (not os.path.exists(os.path.join(COQ, 'Makefile')) or
                os.path.getmtime(os.path.join(COQ, 'Makefile')) < os.path.getmtime(os.path.join(COQ, '_CoqProject'))):
            sh('coq_makefile -f _CoqProject -o Makefile', cwd=COQ)
        rc, out = sh(f'timeout {timeout} make -k -j16', cwd=COQ, timeout=timeout + 60)
    failed = re.findall(r'\[[^\]]*?([\w/]+)\.vo\] Error', out)
    failed += re.findall(r'File "\./([\w/]+)\.v", line \d+, characters [\d-]+:\s*\nError', out)
    return rc == 0, out, sorted(set(f + '.v' for f in failed))


def coq_clean():
    with Lock('coq'):
        sh('make clean; find . -name "*.vo" -delete; find . -name "*.vo[ks]" -delete; find . -name "*.glob" -delete', cwd=COQ)


def check_props(prop):
    """Compile Props/<prop>.v on its own, capture Print Assumptions per theorem.
    Returns dict(theorems=[...], discharged=[...], assumptions={thm: text}, ok, log)."""
    path = os.path.join(COQ, 'Props', prop + '.v')
    src = open(path).read()
    theorems = re.findall(r'^\s*(?:Theorem|Lemma|Corollary)\s+(\w+)', src, re.M)
    with Lock('coq'):
        rc, out = sh(f'timeout 600 coqc -R . Stef Props/{prop}.v', cwd=COQ, timeout=660)
    res = dict(theorems=theorems, discharged=[], assumptions={}, ok=(rc == 0), log=out)
    if rc != 0:
        return res
    # output: blocks per Print Assumptions, in order
    blocks = re.split(r'(?=Closed under the global context|Axioms:)', out)
    blocks = [b for b in blocks if b.startswith('Closed under') or b.startswith('Axioms:')]
    printed = re.findall(r'Print Assumptions\s+(\w+)', src)
    for name, b in zip(printed, blocks):
        res['assumptions'][name] = b.strip()
        if b.startswith('Closed under'):
            res['discharged'].append(name)
        else:
            axs = set(re.findall(r'^(\w[\w.]*)\s*:', b, re.M))
            if axs <= ALLOWED_AXIOMS:
                res['discharged'].append(name)
    return res


FORBIDDEN = re.compile(r'\b(Admitted|admit|Axiom|Parameter|Conjecture|Admit Obligations|Unset Guard|bypass_check|type-in-type|impredicative-set)\b')


def hygiene():
    """grep the development for forbidden declarations; returns list of hits."""
    hits = []
    for root, _, files in os.walk(COQ):
        for f in files:
            if f.endswith('.v') or f == '_CoqProject':
                p = os.path.join(root, f)
                for i, line in enumerate(open(p, errors='replace'), 1):
                    code = re.sub(r'\(\*.*?\*\)', '', line)
                    if FORBIDDEN.search(code):
                        hits.append(f'{os.path.relpath(p, VERIF)}:{i}: {line.strip()}')
    return hits


# ---------------------------------------------------------------- OCaml
def _hash_files(paths):
    h = hashlib.sha256()
    for p in sorted(paths):
        h.update(p.encode())
        h.update(open(p, 'rb').read())
    return h.hexdigest()


def ocaml_build_unit(unit, extract_v, drivers):
    """Extract one unit of the model (coq/Extract/<extract_v>, which must write "model.ml") into
    build/ext_<unit>/ and compile its drivers (ocaml/<driver>.ml, linked with ocaml/conv.ml).
    Returns (ok, log). Cached on the hash of every model source, the extraction file and the drivers."""
    oc = os.path.join(VERIF, 'ocaml')
    with Lock('ocaml_' + unit):
        srcs = [os.path.join(COQ, f) for f in coq_project_files() if not f.startswith('Props/')]
        srcs += [os.path.join(COQ, 'Extract', extract_v), os.path.join(oc, 'conv.ml')]
        srcs += [os.path.join(oc, d + '.ml') for d in drivers]
        key = _hash_files([s for s in srcs if os.path.exists(s)])
        stamp = os.path.join(BUILD, f'ocaml_{unit}.stamp')
        if os.path.exists(stamp) and open(stamp).read() == key and all(
                os.path.exists(os.path.join(BUILD, d)) for d in drivers):
            return True, 'cached'
        ext = os.path.join(BUILD, 'ext_' + unit)
        os.makedirs(ext, exist_ok=True)
        rc, out = sh(f'timeout 900 coqc -R {COQ} Stef {COQ}/Extract/{extract_v}', cwd=ext, timeout=960)
        base = extract_v[:-2]
        sh(f'rm -f {COQ}/Extract/{base}.vo {COQ}/Extract/{base}.vok {COQ}/Extract/{base}.vos {COQ}/Extract/{base}.glob {COQ}/Extract/.{base}.aux')
        if rc != 0:
            return False, out
        log = out
        for d in drivers:
            rc, out = sh(f'cp {oc}/conv.ml {oc}/{d}.ml {ext}/ && cd {ext} && ocamlfind ocamlopt -package zarith -linkpkg -O2 -w -a '
                         f'model.mli model.ml conv.ml {d}.ml -o {BUILD}/{d}', timeout=900)
            log += out
            if rc != 0:
                return False, log
        open(stamp, 'w').write(key)
        return True, log


def ocaml_build(drivers=('prim_driver', 'stream_driver')):
    """the main unit: coq/Extract/Extract.v with the primitive and stream drivers"""
    return ocaml_build_unit('main', 'Extract.v', tuple(drivers))


# ---------------------------------------------------------------- Go
def go_build(name, pkgdir=None, tags='verif', timeout=900):
    """Build harness/<name> against /repo's working tree. Returns (ok, log, binary path)."""
    h = os.path.join(VERIF, 'harness')
    out_bin = os.path.join(BUILD, 'go_' + name)
    with Lock('go'):
        sh(f'cp {REPO}/go/otel/go.sum {h}/go.sum 2>/dev/null; true')
        rc, out = sh(f'go build -tags {tags} -o {out_bin} ./{pkgdir or name}', cwd=h, env=GOENV, timeout=timeout)
    return rc == 0, out, out_bin


def run_lines(binary, lines, timeout=600):
    """Feed newline-separated cases to a driver, return output lines."""
    rc, out = sh([binary], inp=('\n'.join(lines) + '\n').encode(), timeout=timeout)
    return rc, out.split('\n')[:-1] if out.endswith('\n') else out.split('\n')


# ---------------------------------------------------------------- findings, evidence, verdict
def load_known():
    p = os.path.join(VERIF, 'known_findings.json')
    if not os.path.exists(p):
        return []
    return json.load(open(p)).get('findings', [])


def write_replay(prop, obj):
    os.makedirs(os.path.join(VERIF, 'replay'), exist_ok=True)
    body = json.dumps(obj, indent=1, sort_keys=True, default=str)
    h = hashlib.sha256(body.encode()).hexdigest()[:12]
    path = os.path.join(VERIF, 'replay', f'{prop}-{h}.json')
    open(path, 'w').write(body)
    return os.path.relpath(path, VERIF)


class Verdict:
    """Collects violations / known findings for one check run and prints the final lines."""
    def __init__(self, prop):
        self.prop = prop
        self.violations = []   # (replay path, no_input flag, summary)
        self.known = []        # messages
        self.known_ids = set()
    def violation(self, replay_obj, summary, no_input=False):
        replay_obj = dict(replay_obj, property=self.prop, summary=summary)
        path = write_replay(self.prop, replay_obj)
        self.violations.append((path, no_input, summary))
    def known_finding(self, fid, msg):
        if fid not in self.known_ids:
            self.known_ids.add(fid)
            self.known.append(msg)
    def finish(self):
        for m in self.known:
            print(f'KNOWN-FINDING: property={self.prop} {m}')
        seen = set()
        for path, no_input, summary in self.violations[:20]:
            if path in seen:
                continue
            seen.add(path)
            print(f'# {summary}')
            print(f'VIOLATION property={self.prop} replay={path}' + (' no-failing-input-found' if no_input else ''))
        return 1 if self.violations else 0


def write_evidence(prop, tier, seed, coverage, wall, violations, assumptions):
    os.makedirs(os.path.join(VERIF, 'evidence'), exist_ok=True)
    ev = dict(property_id=prop, tier=tier, seed=seed, level='proof', coverage=coverage,
              assumptions=assumptions, wall_s=round(wall, 2), violations=violations)
    with open(os.path.join(VERIF, 'evidence', prop + '.json'), 'w') as f:
        json.dump(ev, f, indent=1, sort_keys=False, default=str)


TRUSTED_COMMON = [
    'Coq 8.16.1 kernel and vm_compute (no native_compute)',
    'axioms: none declared; Print Assumptions output per theorem recorded below',
    'translators tools/gen/*.py (regenerate coq/gen/*.v from /repo on every run)',
    'extraction: ExtrOcamlBasic only, no Extract Constant/Inductive of our own; OCaml 4.13.1 + zarith for I/O conversion in the drivers',
    'correspondence check: Go harness built from /repo working tree vs extracted model, tools/*.py comparator',
]


def coqchk_stage(prop, timeout=7200):
    """thorough tier: re-check Props/<prop>.vo and everything it depends on with the independent checker
    coqchk and record the axioms it reports. Cached by a hash of the project's sources (one run per tree)."""
    files = [os.path.join(COQ, f) for f in coq_project_files()]
    key = _hash_files(files)[:16]
    cache = os.path.join(BUILD, f'coqchk_{prop}_{key}.json')
    if os.path.exists(cache):
        return json.load(open(cache))
    t0 = time.time()
    with Lock('coq'):
        rc, out = sh(f'coqchk -silent -o -R . Stef Stef.Props.{prop}', cwd=COQ, timeout=timeout)
    m = re.search(r'\* Axioms:(.*?)\n\s*\n\* Constants/Inductives relying on type-in-type:(.*?)\n\s*\n\* Constants/Inductives relying on unsafe \(co\)fixpoints:(.*?)\n\s*\n\* Inductives whose positivity is assumed:(.*?)\n', out + '\n\n', re.S)
    fields = [' '.join(x.split()) for x in m.groups()] if m else []
    ok = rc == 0 and bool(m) and all(f == '<none>' for f in fields)
    res = dict(ok=ok, rc=rc, cmd=f'cd coq && coqchk -silent -o -R . Stef Stef.Props.{prop}', wall_s=round(time.time() - t0, 1),
               axioms=fields[0] if fields else None, type_in_type=fields[1] if fields else None,
               unsafe_fixpoints=fields[2] if fields else None, assumed_positivity=fields[3] if fields else None,
               summary=' | '.join(fields) if fields else out[-400:])
    if rc == 0 and m:
        json.dump(res, open(cache, 'w'))
    return res


def proof_stage(prop, verdict, extra_files=()):
    """Steps 1-2 of every check: regenerate, build, collect assumptions, hygiene.
    Returns a dict merged into the evidence coverage. Broken obligations are returned in ['broken']."""
    t0 = time.time()
    changed, gen_errors = regen()
    ok, log, failed = coq_build()
    info = dict(regenerated_changed=changed, translator_errors=gen_errors, coq_build_ok=ok, failed_files=failed)
    broken = []
    if gen_errors:
        broken += [f'translator:{e}' for e in gen_errors]
    pr = check_props(prop)
    info['theorems'] = pr['theorems']
    info['print_assumptions'] = pr['assumptions']
    if not pr['ok']:
        m = re.findall(r'File "\./([\w/]+)\.v", line (\d+)', pr['log'])
        broken.append(f'Props/{prop}.v does not check: ' + (pr['log'].strip().splitlines()[-1] if pr['log'].strip() else 'coqc failed'))
        if failed:
            broken += [f'file {f} does not check' for f in failed]
        open(os.path.join(BUILD, f'coq_{prop}.log'), 'w').write(log + '\n----\n' + pr['log'])
    undis = [t for t in pr['theorems'] if t not in pr['discharged']]
    if pr['ok'] and undis:
        broken += [f'theorem {t}: assumptions not closed: {pr["assumptions"].get(t, "no Print Assumptions")}' for t in undis]
    hy = hygiene()
    if hy:
        broken += [f'forbidden declaration: {h}' for h in hy]
    if os.environ.get('VERIF_TIER_EFFECTIVE') == 'thorough' and pr['ok'] and not broken:
        ck = coqchk_stage(prop)
        info['coqchk'] = ck
        if not ck['ok']:
            broken.append('coqchk (independent checker) does not accept Props/%s.vo and its dependencies: %s' % (prop, ck['summary'][:300]))
    info['obligations'] = len(pr['theorems'])
    info['discharged'] = len(pr['discharged']) if pr['ok'] else 0
    info['broken'] = broken
    info['checker_cmd'] = f'cd coq && coq_makefile -f _CoqProject -o Makefile && make -j16 && coqc -R . Stef Props/{prop}.v'
    info['proof_wall_s'] = round(time.time() - t0, 1)
    return info
